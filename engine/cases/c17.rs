//! C17 — loop connections compute the accumulated repeated sub-network.

use super::*;
use std::sync::Arc;

pub fn loop_case(name: &'static str, input: Shape, layers: Vec<L>, a: usize, b: usize, k: usize, inskips: bool, acc: Acc) -> Case {
    loop_case_skipacc(name, input, layers, a, b, k, inskips, acc, Acc::Add)
}

/// `skipacc`: the network's *skip-connection* accumulation — there is no skip connection in these networks, so it must
/// not matter (the loop's input skip always adds the original input)
pub fn loop_case_skipacc(name: &'static str, input: Shape, layers: Vec<L>, a: usize, b: usize, k: usize, inskips: bool, acc: Acc, skipacc: Acc) -> Case {
    Case {
        id: format!("C17/{}/loop{}to{}x{}/inskips{}/{}{}", name, b, a, k, inskips as u8, acc.name(), if skipacc == Acc::Add { String::new() } else { format!("/skip-accumulation-{}", skipacc.name()) }),
        property: "C17",
        family: "Network::forward (loop connection)",
        class: format!("inskips{}-{}", inskips as u8, acc.name()),
        no_ties: false,
        max_paths: 1024,
        run: Box::new(move |ctx| {
            let mut net = build_net(input.clone(), &layers);
            symbolize(ctx, &mut net, "");
            net.loopback(b, a, k, Arc::new(|x| lit(1.0) / x), inskips);
            net.set_accumulation(skipacc.lib(), acc.lib());
            let x = input_tensor(ctx, &input, "x");
            let y = net.predict(&x);
            // oracle: explicit iteration with the layers' public forward
            let xa = if a == 0 { x.clone() } else { range_forward(&net, 0, a - 1, &x) };
            let first = range_forward(&net, a, b, &xa);
            let mut outs = vec![first.clone()];
            for _ in 0..k {
                let prev = outs.last().unwrap().clone();
                // the value fed back has the shape of layer a's input
                let mut cur = rewrap(&xa, &elems(&prev));
                if inskips {
                    cur = combine_t(Acc::Add, &cur, &[xa.clone()]);
                }
                outs.push(range_forward(&net, a, b, &cur));
            }
            let rest: Vec<Tensor> = outs[1..].to_vec();
            let passed_on = combine_t(acc, &first, &rest);
            let want = if b + 1 < net.layers.len() { range_forward(&net, b + 1, net.layers.len() - 1, &passed_on) } else { passed_on };
            let (g, w) = (elems(&y), elems(&want));
            ctx.fact("output-count", g.len() == w.len(), format!("{} {}", g.len(), w.len()));
            for i in 0..g.len().min(w.len()) {
                ctx.eq(&format!("output[{}]", i), g[i], w[i]);
            }
            if acc == Acc::Overwrite && !inskips {
                // equals the plain network in which layers a..b are repeated k+1 times with shared weights
                let mut cur = xa.clone();
                for _ in 0..=k {
                    let c2 = rewrap(&xa, &elems(&cur));
                    cur = range_forward(&net, a, b, &c2);
                }
                let plain = if b + 1 < net.layers.len() { range_forward(&net, b + 1, net.layers.len() - 1, &cur) } else { cur };
                let p = elems(&plain);
                for i in 0..g.len().min(p.len()) {
                    ctx.eq(&format!("plain-repeated[{}]", i), g[i], p[i]);
                }
            }
        }),
    }
}

/// Negative control: the oracle iterates once too often.
pub fn control_case() -> Case {
    Case {
        id: "C17/control/one-iteration-too-many".into(),
        property: "C17",
        family: "control",
        class: "control".into(),
        no_ties: false,
        max_paths: 4,
        run: Box::new(move |ctx| {
            let mut net = build_net(Shape::Single(2), &[L::Dense(2, Act::Linear, false), L::Dense(1, Act::Linear, false)]);
            symbolize(ctx, &mut net, "");
            net.loopback(0, 0, 1, Arc::new(|x| lit(1.0) / x), false);
            net.set_accumulation(Accumulation::Add, Accumulation::Overwrite);
            let x = input_tensor(ctx, &Shape::Single(2), "x");
            let y = elems(&net.predict(&x));
            let mut cur = x.clone();
            for _ in 0..3 {
                cur = range_forward(&net, 0, 0, &cur);
            }
            let w = elems(&range_forward(&net, 1, 1, &cur));
            ctx.eq("output[0]", y[0], w[0]);
        }),
    }
}

pub fn cases(tier: Tier, seed: u64) -> Vec<Case> {
    let full = tier == Tier::Thorough;
    use Act::*;
    let nets: Vec<(&'static str, Shape, Vec<L>, usize, usize)> = vec![
        ("dense-dense-dense/0..1", Shape::Single(2), vec![L::Dense(2, Linear, false), L::Dense(2, Linear, true), L::Dense(1, Linear, false)], 0, 1),
        ("dense-dense-dense/1..1", Shape::Single(2), vec![L::Dense(2, Tanh, true), L::Dense(2, Linear, true), L::Dense(1, Linear, false)], 1, 1),
        ("conv-dense/0..0", Shape::Triple(1, 2, 2), vec![L::Conv(1, (3, 3), (1, 1), (1, 1), (1, 1), Linear), L::Dense(1, Linear, true)], 0, 0),
        ("conv-conv/0..0", Shape::Triple(1, 2, 2), vec![L::Conv(1, (3, 3), (1, 1), (1, 1), (1, 1), Linear), L::Conv(1, (2, 2), (1, 1), (0, 0), (1, 1), Linear)], 0, 0),
        ("conv-pool-dense/0..1", Shape::Triple(1, 2, 2), vec![L::Conv(1, (3, 3), (1, 1), (1, 1), (1, 1), Linear), L::Pool((1, 1), (1, 1)), L::Dense(1, Linear, false)], 0, 1),
        ("dense2/0..0-last", Shape::Single(2), vec![L::Dense(2, Linear, true)], 0, 0),
        ("conv2ch-dense/0..0", Shape::Triple(2, 2, 2), vec![L::Conv(2, (3, 3), (1, 1), (1, 1), (1, 1), Linear), L::Dense(1, Linear, true)], 0, 0),
    ];
    let mut out = Vec::new();
    let mut n = 0u64;
    for (name, input, layers, a, b) in nets.iter() {
        for k in 1..=3usize {
            for inskips in [false, true] {
                for acc in Acc::all() {
                    n += 1;
                    if !full && (k == 3 || (mix(n ^ seed) % 2 == 0 && !name.starts_with("dense-dense-dense/0"))) {
                        continue;
                    }
                    out.push(loop_case(name, input.clone(), layers.clone(), *a, *b, k, inskips, acc));
                }
            }
        }
    }
    for (skipacc, acc, k) in [(Acc::Multiply, Acc::Add, 1usize), (Acc::Mean, Acc::Mean, 2), (Acc::Overwrite, Acc::Add, 1), (Acc::Subtract, Acc::Multiply, 1)] {
        if full || skipacc == Acc::Multiply || skipacc == Acc::Mean {
            let (name, input, layers, a, b) = &nets[0];
            out.push(loop_case_skipacc(name, input.clone(), layers.clone(), *a, *b, k, true, acc, skipacc));
            out.push(loop_case_skipacc(name, input.clone(), layers.clone(), *a, *b, k, false, acc, skipacc));
        }
    }
    out.push(control_case());
    out
}
