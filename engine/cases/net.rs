//! Network specifications shared by the cases: build a network through the public builder API and
//! replace its parameters by named variables.

use super::*;

/// Small architectures for the composition clause: `predict` == the layers' public `forward`s in order.
#[derive(Clone, Debug)]
pub enum L {
    Dense(usize, Act, bool),
    Conv(usize, (usize, usize), (usize, usize), (usize, usize), (usize, usize), Act),
    Deconv(usize, (usize, usize), (usize, usize), (usize, usize), Act),
    Pool((usize, usize), (usize, usize)),
    /// block layers, loops, inskips, outskips, accumulation
    Feedback(Vec<L>, usize, bool, bool, Acc),
    /// dense / conv / deconv with a dropout rate
    DenseDrop(usize, Act, bool, f32),
    ConvDrop(usize, (usize, usize), (usize, usize), (usize, usize), (usize, usize), Act, f32),
    DeconvDrop(usize, (usize, usize), (usize, usize), (usize, usize), Act, f32),
}

fn fb_layer(l: &L) -> neurons::feedback::Layer {
    use neurons::feedback::Layer as F;
    match l {
        L::Dense(n, a, b) => F::Dense(*n, a.lib(), *b, None),
        L::DenseDrop(n, a, b, d) => F::Dense(*n, a.lib(), *b, Some(lit_f32(*d))),
        L::Conv(f, k, s, p, d, a) => F::Convolution(*f, a.lib(), *k, *s, *p, *d, None),
        L::ConvDrop(f, k, s, p, d, a, dr) => F::Convolution(*f, a.lib(), *k, *s, *p, *d, Some(lit_f32(*dr))),
        L::Deconv(f, k, s, p, a) => F::Deconvolution(*f, a.lib(), *k, *s, *p, None),
        L::DeconvDrop(f, k, s, p, a, dr) => F::Deconvolution(*f, a.lib(), *k, *s, *p, Some(lit_f32(*dr))),
        L::Pool(k, s) => F::Maxpool(*k, *s),
        L::Feedback(..) => panic!("harness: nested feedback"),
    }
}

/// a concrete constant of the scalar type
pub fn lit_f32(x: f32) -> S {
    lit(x)
}

pub fn build_net(input: Shape, layers: &[L]) -> Network {
    let mut net = Network::new(input);
    for l in layers {
        match l {
            L::Dense(n, a, b) => net.dense(*n, a.lib(), *b, None),
            L::Conv(f, k, s, p, d, a) => net.convolution(*f, *k, *s, *p, *d, a.lib(), None),
            L::Deconv(f, k, s, p, a) => net.deconvolution(*f, *k, *s, *p, a.lib(), None),
            L::Pool(k, s) => net.maxpool(*k, *s),
            L::DenseDrop(n, a, b, d) => net.dense(*n, a.lib(), *b, Some(lit(*d))),
            L::ConvDrop(f, k, s, p, d, a, dr) => net.convolution(*f, *k, *s, *p, *d, a.lib(), Some(lit(*dr))),
            L::DeconvDrop(f, k, s, p, a, dr) => net.deconvolution(*f, *k, *s, *p, a.lib(), Some(lit(*dr))),
            L::Feedback(ls, loops, ins, outs, acc) => net.feedback(ls.iter().map(fb_layer).collect(), *loops, *ins, *outs, acc.lib()),
        }
    }
    net
}

/// Replace every parameter of the network by named variables `L{i}w…` / `L{i}b…`.
pub fn symbolize(ctx: &mut Ctx, net: &mut Network, prefix: &str) {
    for (i, layer) in net.layers.iter_mut().enumerate() {
        symbolize_layer(ctx, layer, &format!("{}L{}", prefix, i));
    }
}
pub fn symbolize_layer(ctx: &mut Ctx, layer: &mut Layer, p: &str) {
    if let Layer::Feedback(_) = layer {
        // feedback blocks are symbolised by `symbolize_feedback` (the case knows the loop count)
        return;
    }
    let (ws, b) = hooks::params(layer);
    if ws.is_empty() {
        return;
    }
    let nws: Vec<Tensor> = ws
        .iter()
        .enumerate()
        .map(|(f, w)| match &w.data {
            Data::Double(d) => t2(&v2(ctx, &format!("{}w", p), d.len(), d[0].len())),
            Data::Triple(d) => t3(&v3(ctx, &format!("{}k{}", p, f), d.len(), d[0].len(), d[0][0].len())),
            _ => panic!("harness: unexpected parameter rank"),
        })
        .collect();
    let nb = b.map(|b| t1(&v1(ctx, &format!("{}b", p), d1(&b).len())));
    hooks::set_params(layer, nws, nb);
}

/// Every repetition of a coupled layer gets the *same* variables (weight tying); `period` = layers per loop.
pub fn symbolize_feedback(ctx: &mut Ctx, layer: &mut Layer, period: usize, p: &str) {
    if let Layer::Feedback(fb) = layer {
        for j in 0..fb.layers.len() {
            let name = format!("{}f{}", p, j % period);
            symbolize_layer(ctx, &mut fb.layers[j], &name);
        }
    }
}

pub fn input_tensor(ctx: &mut Ctx, shape: &Shape, p: &str) -> Tensor {
    match shape {
        Shape::Single(n) => t1(&v1(ctx, p, *n)),
        Shape::Triple(c, h, w) => t3(&v3(ctx, p, *c, *h, *w)),
        _ => panic!("harness: unsupported input shape"),
    }
}


/// post-activation output of one layer through its public `forward`
pub fn layer_forward(layer: &Layer, x: &Tensor) -> Tensor {
    match layer {
        Layer::Dense(l) => l.forward(x).1,
        Layer::Convolution(l) => l.forward(x).1,
        Layer::Deconvolution(l) => l.forward(x).1,
        Layer::Maxpool(l) => l.forward(x).1,
        Layer::Feedback(l) => l.forward(x).1,
    }
}

/// apply layers `from..=to` of a network in order
pub fn range_forward(net: &Network, from: usize, to: usize, x: &Tensor) -> Tensor {
    let mut cur = x.clone();
    for i in from..=to {
        cur = layer_forward(&net.layers[i], &cur);
    }
    cur
}

/// a tensor with the shape of `like` holding `vals` in row-major order
pub fn rewrap(like: &Tensor, vals: &[S]) -> Tensor {
    match &like.data {
        Data::Single(_) => t1(&vals.to_vec()),
        Data::Triple(d) => {
            let (h, w) = (d[0].len(), d[0][0].len());
            t3(&vals.chunks(h * w).map(|m| m.chunks(w).map(|r| r.to_vec()).collect()).collect())
        }
        Data::Double(d) => t2(&vals.chunks(d[0].len()).map(|r| r.to_vec()).collect()),
        _ => panic!("harness: rewrap of an unsupported rank"),
    }
}

/// element-wise accumulation of tensors of equal element count (shape of `a`)
pub fn combine_t(acc: Acc, a: &Tensor, others: &[Tensor]) -> Tensor {
    let o: Vec<V1> = others.iter().map(elems).collect();
    rewrap(a, &acc.combine(&elems(a), &o))
}

// ------------------------------------------------------------------------------------------------
// cutting a training run at every optimizer call

#[derive(Clone)]
pub struct UpdateCall {
    pub layer: usize,
    pub filter: usize,
    pub bias: bool,
    pub stepnr: i32,
    pub before: Tensor,
    pub grads: Tensor,
    pub after: Tensor,
}

pub type UpdateLog = std::rc::Rc<std::cell::RefCell<Vec<UpdateCall>>>;

/// Replace `Optimizer::update` by "record the arguments, then overwrite the parameter tensor with fresh
/// variables `U<call>_<i>`" (sound: fresh variables over-approximate every reachable weight value).
pub fn install_havoc_stub() -> UpdateLog {
    let log: UpdateLog = std::rc::Rc::new(std::cell::RefCell::new(Vec::new()));
    let l2 = log.clone();
    hooks::set_update_stub(Some(Box::new(move |layer, filter, bias, stepnr, values: &mut Tensor, grads: &mut Tensor| {
        let n = l2.borrow().len();
        let before = values.clone();
        let vals: V1 = (0..elems(values).len()).map(|i| fresh(&format!("U{}_{}", n, i))).collect();
        *values = rewrap_any(values, &vals);
        l2.borrow_mut().push(UpdateCall { layer, filter, bias, stepnr, before, grads: grads.clone(), after: values.clone() });
    })));
    log
}

pub fn remove_stubs() {
    hooks::set_update_stub(None);
    hooks::set_validate_stub(None);
}

pub fn rewrap_any(like: &Tensor, vals: &[S]) -> Tensor {
    match &like.data {
        Data::Quadruple(d) => {
            let (c, h, w) = (d[0].len(), d[0][0].len(), d[0][0][0].len());
            Tensor::quadruple(vals.chunks(c * h * w).map(|f| f.chunks(h * w).map(|m| m.chunks(w).map(|r| r.to_vec()).collect()).collect()).collect())
        }
        _ => rewrap(like, vals),
    }
}

/// the same specification with every dropout removed
pub fn without_dropout(layers: &[L]) -> Vec<L> {
    layers
        .iter()
        .map(|l| match l {
            L::DenseDrop(n, a, b, _) => L::Dense(*n, *a, *b),
            L::ConvDrop(f, k, s, p, d, a, _) => L::Conv(*f, *k, *s, *p, *d, *a),
            L::DeconvDrop(f, k, s, p, a, _) => L::Deconv(*f, *k, *s, *p, *a),
            L::Feedback(ls, loops, i, o, acc) => L::Feedback(without_dropout(ls), *loops, *i, *o, *acc),
            other => other.clone(),
        })
        .collect()
}

/// copy every parameter (recursively through feedback blocks) from one network into another of the same architecture
pub fn copy_params(from: &Network, to: &mut Network) {
    for (a, b) in from.layers.iter().zip(to.layers.iter_mut()) {
        copy_layer(a, b);
    }
}
fn copy_layer(a: &Layer, b: &mut Layer) {
    match (a, b) {
        (Layer::Feedback(fa), Layer::Feedback(fb)) => {
            for (x, y) in fa.layers.iter().zip(fb.layers.iter_mut()) {
                copy_layer(x, y);
            }
        }
        (a, b) => {
            let (w, bias) = hooks::params(a);
            if !w.is_empty() {
                hooks::set_params(b, w, bias);
            }
        }
    }
}
