//! C08 (engine-B part) — announced shapes equal produced shapes along builder chains; transitions lose nothing.
//!
//! The "for every configuration" clause on the integer shape arithmetic is Kani's (kani/src/c08.rs). Here the
//! builder chaining (`Network::dense/convolution/...` after each other — not drivable under Kani, see there), the
//! produced tensors and the gradient shapes are checked on enumerated configurations with symbolic values.

use super::*;
use neurons::convolution::Convolution;
use neurons::deconvolution::Deconvolution;
use neurons::maxpool::Maxpool;

fn expected_input(prev_out: &Shape, layer: &Layer) -> Vec<usize> {
    if let Layer::Feedback(fb) = layer {
        // a block takes what its first layer takes
        return expected_input(prev_out, &fb.layers[0]);
    }
    match (prev_out, layer) {
        (Shape::Triple(c, h, w), Layer::Dense(_)) => vec![c * h * w],
        (Shape::Single(n), Layer::Dense(_)) => vec![*n],
        (Shape::Single(n), _) => {
            let r = (0..=*n).find(|r| r * r >= *n).unwrap_or(0);
            vec![1, r, r]
        }
        (s, _) => shape_dims(s),
    }
}

pub fn chain_case(name: &'static str, input: Shape, layers: Vec<L>) -> Case {
    Case {
        id: format!("C08/chain/{}", name),
        property: "C08",
        family: "Network builder / forward / backward shapes",
        class: "chain".into(),
        no_ties: true,
        max_paths: 4096,
        run: Box::new(move |ctx| {
            let mut net = build_net(input.clone(), &layers);
            symbolize(ctx, &mut net, "");
            for (i, l) in net.layers.iter_mut().enumerate() {
                if let L::Feedback(b, _, _, _, _) = &layers[i] {
                    symbolize_feedback(ctx, l, b.len(), &format!("L{}", i));
                }
            }
            let n = net.layers.len();
            // announced shapes chain up
            let mut prev = input.clone();
            for (i, layer) in net.layers.iter().enumerate() {
                let (ins, outs) = hooks::shapes(layer);
                let want = expected_input(&prev, layer);
                ctx.fact(&format!("layer{}-input-is-previous-output", i), shape_dims(&ins) == want, format!("announced input {:?}, previous output {:?}", ins, prev));
                let (_, flatten, _) = hooks::flags(layer);
                let dense_next = i + 1 < n && matches!(net.layers[i + 1], Layer::Dense(_));
                let spatial = matches!(outs, Shape::Triple(..));
                if spatial {
                    ctx.fact(&format!("layer{}-flatten-flag", i), flatten == Some(dense_next), format!("flatten {:?}, dense follows: {}", flatten, dense_next));
                }
                prev = outs;
            }
            // produced shapes equal announced shapes; a flattened output is the row-major sequence of the spatial one
            let x = input_tensor(ctx, &input, "x");
            let (pre, post, mx, fb) = net.forward(&x);
            ctx.fact("activation-count", pre.len() == n && post.len() == n + 1, format!("{} {}", pre.len(), post.len()));
            for (i, layer) in net.layers.iter().enumerate() {
                let (_, outs) = hooks::shapes(layer);
                let (_, flatten, _) = hooks::flags(layer);
                let want = if flatten == Some(true) { vec![shape_count(&outs)] } else { shape_dims(&outs) };
                ctx.fact(&format!("layer{}-produced-shape", i), dims(&post[i + 1]) == want && shape_dims(&post[i + 1].shape) == want && rectangular(&post[i + 1]), format!("produced {:?} / recorded {:?}, announced {:?}", dims(&post[i + 1]), post[i + 1].shape, want));
                if !matches!(layer, Layer::Feedback(_)) {
                    ctx.fact(&format!("layer{}-preactivation-shape", i), dims(&pre[i]) == shape_dims(&outs), format!("{:?} vs {:?}", dims(&pre[i]), outs));
                }
                if flatten == Some(true) {
                    // same layer without the flag: the flat output is its row-major sequence
                    let mut unflat = layer.clone();
                    hooks::set_flatten(&mut unflat, false);
                    let spatial = layer_forward(&unflat, &post[i]);
                    let (a, b) = (elems(&post[i + 1]), elems(&spatial));
                    ctx.fact(&format!("layer{}-flatten-count", i), a.len() == b.len() && dims(&spatial) == shape_dims(&outs), String::new());
                    for j in 0..a.len().min(b.len()) {
                        ctx.claim(&format!("layer{}-flatten[{}]", i, j), Th::Fp, B::Same(a[j], b[j]));
                    }
                }
            }
            // gradient tensors have exactly the shape of the parameters they belong to
            let y = elems(post.last().unwrap());
            let g = v1(ctx, "g", y.len());
            let r = ctx.catch(|_| net.verif_backward(t1(&g), &pre, &post, &mx, fb));
            let (wg, bg) = match r {
                Ok(x) => x,
                Err(m) => {
                    ctx.fact("backward-returns", false, m);
                    return;
                }
            };
            ctx.fact("gradient-count", wg.len() == n && bg.len() == n, format!("{} {}", wg.len(), bg.len()));
            for (i, layer) in net.layers.iter().enumerate() {
                let (w, b) = hooks::params(layer);
                match layer {
                    Layer::Dense(_) => {
                        ctx.fact(&format!("layer{}-weight-gradient-shape", i), dims(&wg[n - 1 - i]) == dims(&w[0]) && rectangular(&wg[n - 1 - i]), format!("{:?} vs {:?}", dims(&wg[n - 1 - i]), dims(&w[0])));
                        ctx.fact(&format!("layer{}-bias-gradient-shape", i), bg[n - 1 - i].as_ref().map(dims) == b.as_ref().map(dims), String::new());
                    }
                    Layer::Convolution(_) | Layer::Deconvolution(_) => {
                        let mut want = vec![w.len()];
                        want.extend(dims(&w[0]));
                        ctx.fact(&format!("layer{}-kernel-gradient-shape", i), dims(&wg[n - 1 - i]) == want && rectangular(&wg[n - 1 - i]), format!("{:?} vs {:?}", dims(&wg[n - 1 - i]), want));
                    }
                    _ => {}
                }
            }
        }),
    }
}

/// a flat size that is not a perfect square is rejected when the spatial layer is added; squares are read as 1 x r x r
pub fn flat_case(kind: &'static str) -> Case {
    Case {
        id: format!("C08/flat-to-spatial/{}", kind),
        property: "C08",
        family: "Network builder / forward / backward shapes",
        class: "flat-to-spatial".into(),
        no_ties: false,
        max_paths: 4,
        run: Box::new(move |ctx| {
            for nflat in 1..=40usize {
                let r = (0..=nflat).find(|r| r * r >= nflat).unwrap();
                let square = r * r == nflat;
                let res = ctx.catch(|_| {
                    let mut net = Network::new(Shape::Single(2));
                    net.dense(nflat, Activation::Linear, false, None);
                    match kind {
                        "convolution" => net.convolution(1, (1, 1), (1, 1), (0, 0), (1, 1), Activation::Linear, None),
                        "deconvolution" => net.deconvolution(1, (1, 1), (1, 1), (0, 0), Activation::Linear, None),
                        _ => net.maxpool((1, 1), (1, 1)),
                    }
                    hooks::shapes(&net.layers[1])
                });
                match (square, res) {
                    (true, Ok((ins, outs))) => ctx.fact(&format!("{}-read-as-1x{}x{}", nflat, r, r), shape_dims(&ins) == vec![1, r, r] && shape_dims(&outs) == vec![1, r, r], format!("{:?} -> {:?}", ins, outs)),
                    (true, Err(m)) => ctx.fact(&format!("{}-accepted", nflat), false, format!("perfect square rejected: {}", m)),
                    (false, Ok((ins, _))) => ctx.fact(&format!("{}-rejected", nflat), false, format!("non-square flat size accepted and read as {:?}", ins)),
                    (false, Err(_)) => ctx.fact(&format!("{}-rejected", nflat), true, String::new()),
                }
            }
            // flat sizes where single precision stops representing every integer (2^24 and above) and around large
            // squares: the layer constructor directly (a dense layer of that width would need gigabytes)
            let mut big: Vec<usize> = Vec::new();
            for base in [1usize << 24, 1 << 25, 1 << 26, 1 << 30, 4097 * 4097, 5793 * 5793, 8191 * 8191, 46341 * 46341, 65535 * 65535] {
                for d in [0usize, 1, 2, 3, 255, 256] {
                    big.push(base + d);
                    big.push(base - d);
                }
            }
            for n in big {
                let r = (n as f64).sqrt().round() as usize;
                let square = r * r == n;
                let res = ctx.catch(|_| {
                    let layer = match kind {
                        "convolution" => Layer::Convolution(Convolution::create(Shape::Single(n), 1, &Activation::Linear, (1, 1), (1, 1), (0, 0), (1, 1), None)),
                        "deconvolution" => Layer::Deconvolution(Deconvolution::create(Shape::Single(n), 1, &Activation::Linear, (1, 1), (1, 1), (0, 0), None)),
                        _ => Layer::Maxpool(Maxpool::create(Shape::Single(n), (1, 1), (1, 1))),
                    };
                    hooks::shapes(&layer).0
                });
                match (square, res) {
                    (true, Ok(ins)) => ctx.fact(&format!("{}-read-as-1x{}x{}", n, r, r), shape_dims(&ins) == vec![1, r, r], format!("{:?}", ins)),
                    (true, Err(m)) => ctx.fact(&format!("{}-accepted", n), false, format!("perfect square {}*{} rejected: {}", r, r, m)),
                    (false, Ok(ins)) => ctx.fact(&format!("{}-rejected", n), false, format!("non-square flat size accepted and read as {:?}", ins)),
                    (false, Err(_)) => ctx.fact(&format!("{}-rejected", n), true, String::new()),
                }
            }
        }),
    }
}

/// every configuration of the C02 lattice (kernel 1..3, stride 1..3, padding 0..2, dilation 1..2, six input sizes; flat and
/// spatial input): the shape a single layer *produces* equals the shape it announced and the standard formula.
/// Values are concrete ones (shapes do not depend on them), so every obligation is a fact of the execution itself.
pub fn produced_case(kind: &'static str, full: bool) -> Case {
    Case {
        id: format!("C08/produced/{}", kind),
        property: "C08",
        family: "Network builder / forward / backward shapes",
        class: format!("produced-{}", kind),
        no_ties: false,
        max_paths: 4,
        run: Box::new(move |ctx| {
            let lattice: Vec<Cfg> = match kind {
                "convolution" => conv_lattice(full),
                "deconvolution" => conv_lattice(full).into_iter().filter(|c| c.d == (1, 1) && c.deconv_out().is_some()).collect(),
                _ => conv_lattice(full).into_iter().filter(|c| c.d == (1, 1) && c.p == (0, 0) && c.f == 1 && c.pool_out().is_some()).collect(),
            };
            let mut n_checked = 0usize;
            for c in lattice.iter() {
                let layer = match kind {
                    "convolution" => Layer::Convolution(Convolution::create(Shape::Triple(c.ic, c.ih, c.iw), c.f, &Activation::Linear, c.k, c.s, c.p, c.d, None)),
                    "deconvolution" => Layer::Deconvolution(Deconvolution::create(Shape::Triple(c.ic, c.ih, c.iw), c.f, &Activation::Linear, c.k, c.s, c.p, None)),
                    _ => Layer::Maxpool(Maxpool::create(Shape::Triple(c.ic, c.ih, c.iw), c.k, c.s)),
                };
                let want = match kind {
                    "convolution" => {
                        let (h, w) = c.conv_out().unwrap();
                        vec![c.f, h, w]
                    }
                    "deconvolution" => {
                        let (h, w) = c.deconv_out().unwrap();
                        vec![c.f, h, w]
                    }
                    _ => {
                        let (h, w) = c.pool_out().unwrap();
                        vec![c.ic, h, w]
                    }
                };
                let (_, announced) = hooks::shapes(&layer);
                let vals: V3 = (0..c.ic).map(|a| (0..c.ih).map(|b| (0..c.iw).map(|d| lit((1 + a + 2 * b + 3 * d) as f32)).collect()).collect()).collect();
                for flat in [false, true] {
                    let x = if flat { t1(&flat3(&vals)) } else { t3(&vals) };
                    let r = ctx.catch(|_| layer_forward(&layer, &x));
                    let role = format!("{}-{}", c.tag(), if flat { "flat" } else { "triple" });
                    match r {
                        Ok(y) => {
                            let ok = shape_dims(&announced) == want && dims(&y) == want && shape_dims(&y.shape) == want && rectangular(&y);
                            if !ok || n_checked < 4 {
                                ctx.fact(&role, ok, format!("announced {:?}, produced {:?} (recorded {:?}), formula {:?}", announced, dims(&y), y.shape, want));
                            }
                        }
                        Err(m) => ctx.fact(&role, false, format!("forward panicked: {}", m)),
                    }
                    n_checked += 1;
                }
            }
            ctx.fact("configurations-checked", n_checked == 2 * lattice.len() && n_checked > 0, format!("{}", n_checked));
        }),
    }
}

/// Negative control: the announced shape is compared with a wrong formula.
pub fn control_case() -> Case {
    Case {
        id: "C08/control/wrong-formula".into(),
        property: "C08",
        family: "control",
        class: "control".into(),
        no_ties: false,
        max_paths: 4,
        run: Box::new(move |ctx| {
            let net = build_net(Shape::Triple(1, 5, 5), &[L::Conv(1, (2, 2), (2, 2), (0, 0), (1, 1), Act::Linear)]);
            let (_, outs) = hooks::shapes(&net.layers[0]);
            ctx.fact("conv-output", shape_dims(&outs) == vec![1, 3, 3], format!("{:?}", outs));
        }),
    }
}

pub fn cases(tier: Tier, _seed: u64) -> Vec<Case> {
    let full = tier == Tier::Thorough;
    use Act::*;
    let mut out = Vec::new();
    let mut chains: Vec<(&'static str, Shape, Vec<L>)> = vec![
        ("dense-dense", Shape::Single(3), vec![L::Dense(2, Tanh, true), L::Dense(2, Linear, false)]),
        ("conv-pool-dense", Shape::Triple(2, 4, 4), vec![L::Conv(2, (3, 2), (1, 1), (1, 0), (1, 1), Linear), L::Pool((1, 1), (1, 1)), L::Dense(2, Linear, true)]),
        ("dense-conv-dense", Shape::Single(3), vec![L::Dense(9, Linear, true), L::Conv(2, (2, 2), (1, 1), (1, 1), (1, 1), Linear), L::Dense(1, Linear, false)]),
        ("dense-deconv-conv-dense", Shape::Single(2), vec![L::Dense(4, Linear, false), L::Deconv(1, (2, 2), (2, 2), (0, 0), Linear), L::Conv(1, (3, 3), (1, 1), (0, 0), (1, 1), Linear), L::Dense(2, Linear, true)]),
        ("conv-conv", Shape::Triple(1, 4, 3), vec![L::Conv(2, (2, 1), (1, 1), (0, 1), (1, 1), Linear), L::Conv(1, (1, 2), (1, 1), (0, 0), (1, 1), Tanh)]),
        ("feedbackconv-dense", Shape::Triple(1, 2, 2), vec![L::Feedback(vec![L::Conv(1, (3, 3), (1, 1), (1, 1), (1, 1), Linear)], 2, false, false, Acc::Mean), L::Dense(2, Linear, true)]),
        ("dense-pool-dense", Shape::Single(2), vec![L::Dense(4, Linear, false), L::Pool((1, 1), (1, 1)), L::Dense(1, Linear, true)]),
    ];
    if full {
        chains.push(("deconv-pool-deconv", Shape::Triple(1, 2, 2), vec![L::Deconv(2, (2, 2), (1, 1), (0, 0), Linear), L::Pool((1, 1), (1, 1)), L::Deconv(1, (1, 2), (1, 1), (0, 0), Linear)]));
        chains.push(("conv-p1-dense-conv", Shape::Triple(1, 3, 3), vec![L::Conv(1, (3, 3), (1, 1), (1, 1), (1, 1), Linear), L::Dense(4, Linear, true), L::Conv(1, (2, 2), (1, 1), (0, 0), (1, 1), Linear)]));
        chains.push(("feedbackdense-dense", Shape::Single(2), vec![L::Feedback(vec![L::Dense(3, Linear, true), L::Dense(2, Linear, true)], 2, false, false, Acc::Mean), L::Dense(1, Linear, true)]));
    }
    for (name, input, layers) in chains {
        out.push(chain_case(name, input, layers));
    }
    for kind in ["convolution", "deconvolution", "maxpool"] {
        out.push(flat_case(kind));
        out.push(produced_case(kind, full));
    }
    out.push(control_case());
    out
}
