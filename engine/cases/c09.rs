//! C09 — dropout never leaks into prediction or validation.

use super::*;

fn data(ctx: &mut Ctx, input: &Shape, nout: usize, n: usize, p: &str) -> (Vec<Tensor>, Vec<Tensor>) {
    let xs: Vec<Tensor> = (0..n).map(|i| input_tensor(ctx, input, &format!("{}x{}", p, i))).collect();
    let ts: Vec<Tensor> = (0..n).map(|i| t1(&v1(ctx, &format!("{}t{}", p, i), nout))).collect();
    (xs, ts)
}

fn all_flags_eval(net: &Network) -> bool {
    fn ok(l: &Layer) -> bool {
        match l {
            Layer::Feedback(f) => f.layers.iter().all(ok),
            other => hooks::flags(other).0 != Some(true),
        }
    }
    net.layers.iter().all(ok)
}

/// learn() with validation data: per-epoch validation metrics == validate() of the dropout-free twin at the same weights;
/// afterwards predict == twin predict and no layer is left in training mode.
pub fn learn_case(name: &'static str, input: Shape, layers: Vec<L>, nout: usize, epochs: usize, with_validation: bool) -> Case {
    learn_case_tol(name, input, layers, nout, epochs, with_validation, 5)
}

/// `tolerance == 1` makes the early-stopping rule fire at epoch 2 whatever the losses are (window of one value)
pub fn learn_case_tol(name: &'static str, input: Shape, layers: Vec<L>, nout: usize, epochs: usize, with_validation: bool, tolerance: i32) -> Case {
    Case {
        id: format!("C09/learn/{}/epochs{}/{}{}", name, epochs, if with_validation { "validation" } else { "no-validation" }, if tolerance == 1 { "/early-stop" } else { "" }),
        property: "C09",
        family: "Network::{learn,validate,predict}",
        class: "learn".into(),
        no_ties: false,
        max_paths: 4096,
        run: Box::new(move |ctx| {
            let mut net = build_net(input.clone(), &layers);
            symbolize(ctx, &mut net, "");
            for (i, l) in net.layers.iter_mut().enumerate() {
                if let L::Feedback(b, _, _, _, _) = &layers[i] {
                    symbolize_feedback(ctx, l, b.len(), &format!("L{}", i));
                }
            }
            let mut twin = build_net(input.clone(), &without_dropout(&layers));
            let (xs, ts) = data(ctx, &input, nout, 2, "tr");
            let (vx, vt) = data(ctx, &input, nout, 1, "va");
            let (xr, tr): (Vec<&Tensor>, Vec<&Tensor>) = (xs.iter().collect(), ts.iter().collect());
            let (vxr, vtr): (Vec<&Tensor>, Vec<&Tensor>) = (vx.iter().collect(), vt.iter().collect());
            let has_feedback = layers.iter().any(|l| matches!(l, L::Feedback(..)));
            let log = install_havoc_stub();
            let r = ctx.catch(|_| net.learn(&xr, &tr, if with_validation { Some((&vxr, &vtr, tolerance)) } else { None }, 2, epochs as i32, None));
            remove_stubs();
            let (_tl, vl, va) = match r {
                Ok(x) => x,
                Err(m) => {
                    ctx.fact("learn-returns", false, m);
                    return;
                }
            };
            ctx.fact("flags-after-learn", all_flags_eval(&net), "a layer is still in training mode after learn returned".into());
            if with_validation {
                let ran = if tolerance == 1 { epochs.min(2) } else { epochs };
                ctx.fact("validation-history-length", vl.len() == ran && va.len() == ran, format!("{} {} (expected {})", vl.len(), va.len(), ran));
                let epochs = ran;
                // weights in force at the end of epoch e
                let calls = log.borrow().clone();
                let per_epoch = if epochs > 0 { calls.len() / epochs } else { 0 };
                for e in 0..epochs.min(vl.len()) {
                    if e + 1 == epochs {
                        copy_params(&net, &mut twin);
                    } else if !has_feedback {
                        // reconstruct from the optimizer log: the last value written to each slot up to the end of epoch e
                        let n = net.layers.len();
                        for (i, layer) in twin.layers.iter_mut().enumerate() {
                            let (mut w, mut b) = hooks::params(layer);
                            for c in calls[..(e + 1) * per_epoch].iter() {
                                if c.layer == n - 1 - i {
                                    if c.bias {
                                        b = Some(c.after.clone());
                                    } else if c.filter < w.len() {
                                        w[c.filter] = c.after.clone();
                                    }
                                }
                            }
                            if !w.is_empty() {
                                hooks::set_params(layer, w, b);
                            }
                        }
                    } else {
                        continue;
                    }
                    let (tl2, ta2) = twin.validate(&vxr, &vtr, lit(1e-6));
                    ctx.eq(&format!("validation-loss[{}]", e), vl[e], tl2);
                    ctx.eq(&format!("validation-accuracy[{}]", e), va[e], ta2);
                }
            }
            // after training the network predicts like the dropout-free twin
            copy_params(&net, &mut twin);
            let (p, q) = (elems(&net.predict(&vx[0])), elems(&twin.predict(&vx[0])));
            ctx.fact("predict-count", p.len() == q.len(), String::new());
            for i in 0..p.len().min(q.len()) {
                ctx.eq(&format!("predict-after-learn[{}]", i), p[i], q[i]);
            }
            let (l1, a1) = net.validate(&vxr, &vtr, lit(0.5));
            let (l2, a2) = twin.validate(&vxr, &vtr, lit(0.5));
            ctx.eq("validate-after-learn-loss", l1, l2);
            ctx.eq("validate-after-learn-accuracy", a1, a2);
        }),
    }
}

/// stand-alone validate / predict / predict_batch never apply a mask
pub fn standalone_case(name: &'static str, input: Shape, layers: Vec<L>, nout: usize) -> Case {
    Case {
        id: format!("C09/standalone/{}", name),
        property: "C09",
        family: "Network::{learn,validate,predict}",
        class: "standalone".into(),
        no_ties: false,
        max_paths: 4096,
        run: Box::new(move |ctx| {
            let mut net = build_net(input.clone(), &layers);
            symbolize(ctx, &mut net, "");
            for (i, l) in net.layers.iter_mut().enumerate() {
                if let L::Feedback(b, _, _, _, _) = &layers[i] {
                    symbolize_feedback(ctx, l, b.len(), &format!("L{}", i));
                }
            }
            let mut twin = build_net(input.clone(), &without_dropout(&layers));
            copy_params(&net, &mut twin);
            let (vx, vt) = data(ctx, &input, nout, 2, "va");
            let (vxr, vtr): (Vec<&Tensor>, Vec<&Tensor>) = (vx.iter().collect(), vt.iter().collect());
            let (p, q) = (elems(&net.predict(&vx[0])), elems(&twin.predict(&vx[0])));
            for i in 0..p.len().min(q.len()) {
                ctx.eq(&format!("predict[{}]", i), p[i], q[i]);
            }
            let (pb, qb) = (net.predict_batch(&vxr), twin.predict_batch(&vxr));
            for (k, (a, b)) in pb.iter().zip(qb.iter()).enumerate() {
                for (i, (x, y)) in elems(a).iter().zip(elems(b).iter()).enumerate() {
                    ctx.eq(&format!("predict_batch[{}][{}]", k, i), *x, *y);
                }
            }
            let (l1, a1) = net.validate(&vxr, &vtr, lit(0.5));
            let (l2, a2) = twin.validate(&vxr, &vtr, lit(0.5));
            ctx.eq("validate-loss", l1, l2);
            ctx.eq("validate-accuracy", a1, a2);
            ctx.fact("flags-after-validate", all_flags_eval(&net), String::new());
            // ... and a prediction made after the stand-alone validation is still dropout-free
            let (p, q) = (elems(&net.predict(&vx[1])), elems(&twin.predict(&vx[1])));
            for i in 0..p.len().min(q.len()) {
                ctx.eq(&format!("predict-after-validate[{}]", i), p[i], q[i]);
            }
            let pb = net.predict_batch(&vxr);
            for (k, (a, b)) in pb.iter().zip(qb.iter()).enumerate() {
                for (i, (x, y)) in elems(a).iter().zip(elems(b).iter()).enumerate() {
                    ctx.eq(&format!("predict_batch-after-validate[{}][{}]", k, i), *x, *y);
                }
            }
        }),
    }
}

/// Negative control: the dropout mask is left on on purpose (training flag forced) — must be detected.
pub fn control_case() -> Case {
    Case {
        id: "C09/control/training-flag-forced-on".into(),
        property: "C09",
        family: "control",
        class: "control".into(),
        no_ties: false,
        max_paths: 64,
        run: Box::new(move |ctx| {
            let spec = vec![L::DenseDrop(4, Act::Linear, true, 0.5), L::Dense(1, Act::Linear, true)];
            let mut net = build_net(Shape::Single(2), &spec);
            symbolize(ctx, &mut net, "");
            let mut twin = build_net(Shape::Single(2), &without_dropout(&spec));
            copy_params(&net, &mut twin);
            hooks::set_training(&mut net.layers[0], true);
            let x = input_tensor(ctx, &Shape::Single(2), "x");
            let (p, q) = (elems(&net.predict(&x)), elems(&twin.predict(&x)));
            ctx.eq("predict[0]", p[0], q[0]);
        }),
    }
}

pub fn archs() -> Vec<(&'static str, Shape, Vec<L>, usize)> {
    use Act::*;
    let d = 0.5;
    vec![
        ("dense3-drop-all", Shape::Single(2), vec![L::DenseDrop(3, Linear, true, d), L::DenseDrop(3, Tanh, true, d), L::DenseDrop(1, Linear, true, d)], 1),
        ("dense3-drop-second", Shape::Single(2), vec![L::Dense(3, Linear, true), L::DenseDrop(3, Linear, true, d), L::Dense(1, Linear, true)], 1),
        ("dense2-drop-first", Shape::Single(2), vec![L::DenseDrop(4, Linear, true, d), L::Dense(2, Linear, false)], 2),
        ("conv-dense2-drop-conv-and-last-hidden", Shape::Triple(1, 2, 2), vec![L::ConvDrop(1, (2, 2), (1, 1), (1, 1), (1, 1), Linear, d), L::DenseDrop(3, Linear, true, d), L::Dense(1, Linear, true)], 1),
        ("conv-pool-dense2", Shape::Triple(1, 3, 3), vec![L::ConvDrop(1, (2, 2), (1, 1), (0, 0), (1, 1), Linear, d), L::Pool((1, 1), (1, 1)), L::DenseDrop(2, Linear, true, d), L::Dense(1, Linear, false)], 1),
        ("deconv-dense2", Shape::Triple(1, 1, 2), vec![L::DeconvDrop(1, (2, 2), (1, 1), (0, 0), Linear, d), L::DenseDrop(2, Linear, true, d), L::Dense(1, Linear, true)], 1),
        (
            "dense-feedback-dense",
            Shape::Single(2),
            vec![L::Dense(2, Linear, true), L::Feedback(vec![L::DenseDrop(2, Linear, true, d)], 2, false, false, Acc::Mean), L::DenseDrop(3, Linear, true, d), L::Dense(1, Linear, true)],
            1,
        ),
        ("pool-first-dense2", Shape::Triple(1, 2, 2), vec![L::Pool((1, 1), (1, 1)), L::DenseDrop(3, Linear, true, d), L::Dense(1, Linear, true)], 1),
        (
            "feedback-first-dense2",
            Shape::Single(2),
            vec![L::Feedback(vec![L::DenseDrop(2, Linear, true, d)], 2, false, false, Acc::Mean), L::DenseDrop(3, Linear, true, d), L::Dense(1, Linear, true)],
            1,
        ),
        ("dense4-drop-third", Shape::Single(2), vec![L::Dense(2, Linear, false), L::Dense(3, Linear, true), L::DenseDrop(4, Linear, true, d), L::Dense(1, Linear, true)], 1),
    ]
}

pub fn cases(tier: Tier, _seed: u64) -> Vec<Case> {
    let full = tier == Tier::Thorough;
    let mut out = Vec::new();
    for (name, input, layers, nout) in archs() {
        out.push(learn_case(name, input.clone(), layers.clone(), nout, 1, true));
        if full || name.starts_with("dense3") {
            out.push(learn_case(name, input.clone(), layers.clone(), nout, 2, true));
        }
        if full || name == "dense2-drop-first" {
            out.push(learn_case(name, input.clone(), layers.clone(), nout, 1, false));
        }
        if full || name == "dense3-drop-all" || name == "conv-dense2-drop-conv-and-last-hidden" {
            out.push(learn_case_tol(name, input.clone(), layers.clone(), nout, 3, true, 1));
        }
        out.push(standalone_case(name, input.clone(), layers.clone(), nout));
        if full || name == "dense3-drop-second" || name == "dense-feedback-dense" {
            out.push(learn_case(name, input.clone(), layers.clone(), nout, 0, true));
            out.push(learn_case(name, input.clone(), layers.clone(), nout, 0, false));
        }
    }
    out.push(control_case());
    out
}
