//! C04 — training is ordered mini-batch gradient-sum descent.
//!
//! `Optimizer::update` is cut by the recording/havocking stub, so every optimizer call is an independent stage
//! "for arbitrary pre-step weights". The recorded gradient argument of every call is compared with the sum of the
//! library's own per-sample gradients (public forward + backward on a twin network holding the recorded pre-step
//! weights) over the consecutive group of B samples, summed in the reverse order.

use super::*;

type Key = (usize, usize, bool, Vec<usize>);

fn key_of(c: &UpdateCall) -> Key {
    (c.layer, c.filter, c.bias, dims(&c.before))
}

/// (key, getter of the gradient component from a (wg, bg) pair returned by verif_backward) for every parameter tensor
fn slots(net: &Network) -> Vec<(Key, Vec<usize>)> {
    // path: [reversed outer index] or [reversed outer index, reversed inner index]; plus filter / bias in the key
    let n = net.layers.len();
    let mut out = Vec::new();
    for (i, layer) in net.layers.iter().enumerate() {
        let r = n - 1 - i;
        match layer {
            Layer::Feedback(fb) => {
                let m = fb.layers.len();
                for (j, l) in fb.layers.iter().enumerate() {
                    let rj = m - 1 - j;
                    let (w, b) = hooks::params(l);
                    for (f, t) in w.iter().enumerate() {
                        out.push(((rj, f, false, dims(t)), vec![r, rj]));
                    }
                    if let Some(b) = b {
                        out.push(((rj, 0, true, dims(&b)), vec![r, rj]));
                    }
                }
            }
            other => {
                let (w, b) = hooks::params(other);
                for (f, t) in w.iter().enumerate() {
                    out.push(((r, f, false, dims(t)), vec![r]));
                }
                if let Some(b) = b {
                    out.push(((r, 0, true, dims(&b)), vec![r]));
                }
            }
        }
    }
    out
}

fn set_slot(net: &mut Network, key: &Key, path: &[usize], value: &Tensor) {
    let n = net.layers.len();
    let layer = &mut net.layers[n - 1 - path[0]];
    let target: &mut Layer = if path.len() == 2 {
        match layer {
            Layer::Feedback(fb) => {
                let m = fb.layers.len();
                &mut fb.layers[m - 1 - path[1]]
            }
            _ => unreachable!(),
        }
    } else {
        layer
    };
    let (mut w, mut b) = hooks::params(target);
    if key.2 {
        b = Some(value.clone());
    } else {
        w[key.1] = value.clone();
    }
    hooks::set_params(target, w, b);
}

fn pick_gradient(wg: &Vec<Tensor>, bg: &Vec<Option<Tensor>>, key: &Key, path: &[usize]) -> Option<Tensor> {
    let (w, b): (Tensor, Option<Tensor>) = if path.len() == 2 {
        let wn = wg[path[0]].unnested();
        let bn = bg[path[0]].as_ref()?.unnestedoptional();
        (wn.get(path[1])?.clone(), bn.get(path[1])?.clone())
    } else {
        (wg[path[0]].clone(), bg[path[0]].clone())
    };
    if key.2 {
        b
    } else {
        match &w.data {
            Data::Quadruple(_) => w.quadruple_to_vec_triple().get(key.1).cloned(),
            _ => Some(w),
        }
    }
}

pub fn learn_case(name: &'static str, input: Shape, layers: Vec<L>, nout: usize, obj: Obj, n: usize, batch: usize, epochs: usize) -> Case {
    Case {
        id: format!("C04/{}/{}/N{}-B{}-E{}", name, obj.name(), n, batch, epochs),
        property: "C04",
        family: "Network::learn",
        class: format!("N{}B{}", if n % batch == 0 { "div" } else { "rem" }, if batch > n { ">N" } else if batch == 1 { "=1" } else { "" }),
        no_ties: obj == Obj::AE,
        // (the large-group cases are about the grouping itself: a change that forks once per sample must not make them
        // explore thousands of 100-sample paths)
        max_paths: if n > 8 { 32 } else { 128 },
        run: Box::new(move |ctx| {
            let mut net = build_net(input.clone(), &layers);
            symbolize(ctx, &mut net, "");
            for (i, l) in net.layers.iter_mut().enumerate() {
                if let L::Feedback(_, _, _, _, _) = &layers[i] {
                    if let Layer::Feedback(fb) = l {
                        for (j, inner) in fb.layers.iter_mut().enumerate() {
                            symbolize_layer(ctx, inner, &format!("L{}u{}", i, j));
                        }
                    }
                }
            }
            net.set_objective(obj.lib(), None);
            let mut twin = build_net(input.clone(), &layers);
            twin.set_objective(obj.lib(), None);
            let xs: Vec<Tensor> = (0..n).map(|i| input_tensor(ctx, &input, &format!("x{}", i))).collect();
            // "-zt" networks: the last sample's target is the concrete all-zero row (cross-entropy loss exactly zero while
            // the gradient p - t is not), so a path that depends on `loss == 0.0` has a model that replays natively
            let zero_last = name.ends_with("-zt");
            let ts: Vec<Tensor> = (0..n).map(|i| if zero_last && i + 1 == n { t1(&vec![lit(0.0); nout]) } else { t1(&v1(ctx, &format!("t{}", i), nout)) }).collect();
            let (xr, tr): (Vec<&Tensor>, Vec<&Tensor>) = (xs.iter().collect(), ts.iter().collect());
            let sl = slots(&net);
            let log = install_havoc_stub();
            let r = ctx.catch(|_| net.learn(&xr, &tr, None, batch, epochs as i32, None));
            remove_stubs();
            let (tl, vl, va) = match r {
                Ok(x) => x,
                Err(m) => {
                    ctx.fact("learn-returns", false, m);
                    return;
                }
            };
            let calls = log.borrow().clone();
            let groups = (n + batch - 1) / batch;
            let p = sl.len();
            ctx.fact("one-optimizer-step-per-group", calls.len() == p * groups * epochs, format!("{} optimizer calls for {} parameter tensors x {} groups x {} epochs", calls.len(), p, groups, epochs));
            ctx.fact("history-lengths", tl.len() == epochs && vl.is_empty() && va.is_empty(), format!("{} {} {}", tl.len(), vl.len(), va.len()));
            if calls.len() != p * groups * epochs || tl.len() != epochs {
                return;
            }
            for ep in 0..epochs {
                let mut epoch_loss = lit(0.0);
                for g in 0..groups {
                    let stage = ep * groups + g;
                    let cs = &calls[stage * p..(stage + 1) * p];
                    ctx.fact(&format!("stage{}-step-number", stage), cs.iter().all(|c| c.stepnr == ep as i32 + 1), format!("{:?} expected {}", cs.iter().map(|c| c.stepnr).collect::<Vec<_>>(), ep + 1));
                    // every parameter tensor is stepped exactly once per stage
                    let mut seen = std::collections::HashSet::new();
                    let mut ok = true;
                    for c in cs.iter() {
                        ok &= sl.iter().any(|(k, _)| *k == key_of(c)) && seen.insert(key_of(c));
                    }
                    ctx.fact(&format!("stage{}-every-tensor-once", stage), ok, String::new());
                    if !ok {
                        return;
                    }
                    // the weights held before this step
                    for c in cs.iter() {
                        let (k, path) = sl.iter().find(|(k, _)| *k == key_of(c)).unwrap();
                        set_slot(&mut twin, k, path, &c.before);
                    }
                    let (lo, hi) = (g * batch, ((g + 1) * batch).min(n));
                    let mut sums: Vec<Option<Tensor>> = vec![None; p];
                    let mut lsum = lit(0.0);
                    for i in (lo..hi).rev() {
                        let (pre, post, mx, fb) = twin.forward(&xs[i]);
                        let (l, grad) = twin.verif_loss(post.last().unwrap(), &ts[i]);
                        let (wg, bg) = twin.verif_backward(grad, &pre, &post, &mx, fb);
                        lsum = l + lsum;
                        for (si, (k, path)) in sl.iter().enumerate() {
                            let gi = match pick_gradient(&wg, &bg, k, path) {
                                Some(g) => g,
                                None => {
                                    ctx.fact("gradient-structure", false, format!("no gradient for slot {:?}", k));
                                    return;
                                }
                            };
                            sums[si] = Some(match sums[si].take() {
                                None => gi,
                                Some(acc) => {
                                    let mut t = gi;
                                    t.add_inplace(&acc);
                                    t
                                }
                            });
                        }
                    }
                    epoch_loss = epoch_loss + lsum / lit((hi - lo) as f32);
                    for c in cs.iter() {
                        let si = sl.iter().position(|(k, _)| *k == key_of(c)).unwrap();
                        let (a, b) = (elems(&c.grads), elems(sums[si].as_ref().unwrap()));
                        ctx.fact(&format!("stage{}-slot{:?}-gradient-count", stage, sl[si].0), a.len() == b.len(), String::new());
                        for j in 0..a.len().min(b.len()) {
                            ctx.eq(&format!("stage{}-slot{}.{}.{}-gradient[{}]", stage, c.layer, c.filter, c.bias as u8, j), a[j], b[j]);
                        }
                    }
                }
                ctx.eq(&format!("train-loss[{}]", ep), tl[ep], epoch_loss / lit(groups as f32));
            }
        }),
    }
}

/// ties the stub to the real optimizer call: 2 samples, batch 1, real SGD — final weights == two documented SGD steps
pub fn unstubbed_case() -> Case {
    Case {
        id: "C04/unstubbed/dense1/N2-B1-E1".into(),
        property: "C04",
        family: "Network::learn",
        class: "unstubbed".into(),
        no_ties: false,
        max_paths: 16,
        run: Box::new(move |ctx| {
            let spec = vec![L::Dense(1, Act::Linear, true)];
            let mut net = build_net(Shape::Single(1), &spec);
            symbolize(ctx, &mut net, "");
            let lr = ctx.var("lr");
            ctx.assume(B::Lt(lit(0.0), lr));
            net.set_optimizer(neurons::optimizer::SGD::create(lr, None));
            let mut twin = build_net(Shape::Single(1), &spec);
            copy_params(&net, &mut twin);
            let xs: Vec<Tensor> = (0..2).map(|i| t1(&v1(ctx, &format!("x{}", i), 1))).collect();
            let ts: Vec<Tensor> = (0..2).map(|i| t1(&v1(ctx, &format!("t{}", i), 1))).collect();
            let (xr, tr): (Vec<&Tensor>, Vec<&Tensor>) = (xs.iter().collect(), ts.iter().collect());
            let r = ctx.catch(|_| net.learn(&xr, &tr, None, 1, 1, None));
            if let Err(m) = r {
                ctx.fact("learn-returns", false, m);
                return;
            }
            for i in 0..2 {
                let (pre, post, mx, fb) = twin.forward(&xs[i]);
                let (_, grad) = twin.verif_loss(post.last().unwrap(), &ts[i]);
                let (wg, bg) = twin.verif_backward(grad, &pre, &post, &mx, fb);
                let (w, b) = hooks::params(&twin.layers[0]);
                let nw = elems(&w[0])[0] - lr * elems(&wg[0])[0];
                let nb = elems(b.as_ref().unwrap())[0] - lr * elems(bg[0].as_ref().unwrap())[0];
                hooks::set_params(&mut twin.layers[0], vec![t2(&vec![vec![nw]])], Some(t1(&vec![nb])));
            }
            let ((w, b), (rw, rb)) = (hooks::params(&net.layers[0]), hooks::params(&twin.layers[0]));
            ctx.eq("final-weight", elems(&w[0])[0], elems(&rw[0])[0]);
            ctx.eq("final-bias", elems(b.as_ref().unwrap())[0], elems(rb.as_ref().unwrap())[0]);
        }),
    }
}

/// Negative control: the reference skips the first sample of every group.
pub fn control_case() -> Case {
    let mut c = learn_case("dense-dense", Shape::Single(2), vec![L::Dense(2, Act::Linear, true), L::Dense(1, Act::Linear, false)], 1, Obj::MSE, 2, 2, 1);
    c.id = "C04/control/train-loss-sum-instead-of-mean".into();
    c.family = "control";
    c.class = "control".into();
    let inner = c.run;
    c.run = Box::new(move |ctx| {
        inner(ctx);
        // re-derive the epoch loss wrongly: claim it is zero
        let mut net = build_net(Shape::Single(2), &[L::Dense(1, Act::Linear, false)]);
        symbolize(ctx, &mut net, "Z");
        let x = input_tensor(ctx, &Shape::Single(2), "zx");
        let t = t1(&v1(ctx, "zt", 1));
        let (l, _) = net.verif_loss(&net.predict(&x), &t);
        ctx.eq("wrong-claim", l, lit(0.0));
    });
    c
}

pub fn cases(tier: Tier, seed: u64) -> Vec<Case> {
    let full = tier == Tier::Thorough;
    use Act::*;
    let nets: Vec<(&'static str, Shape, Vec<L>, usize)> = vec![
        ("dense-dense", Shape::Single(2), vec![L::Dense(2, Tanh, true), L::Dense(1, Linear, false)], 1),
        ("conv-dense", Shape::Triple(1, 2, 2), vec![L::Conv(2, (2, 2), (1, 1), (0, 0), (1, 1), Linear), L::Dense(2, Linear, true)], 2),
        ("feedback-dense", Shape::Single(2), vec![L::Feedback(vec![L::Dense(2, Linear, true)], 2, false, false, Acc::Mean), L::Dense(1, Linear, true)], 1),
        ("conv-pool-dense", Shape::Triple(1, 2, 2), vec![L::Conv(1, (2, 2), (1, 1), (1, 1), (1, 1), Linear), L::Pool((1, 1), (1, 1)), L::Dense(1, Linear, true)], 1),
        ("feedback-mixed-bias-dense", Shape::Single(2), vec![L::Feedback(vec![L::Dense(3, Linear, false), L::Dense(2, Linear, true)], 1, false, false, Acc::Mean), L::Dense(1, Linear, true)], 1),
        ("feedback-mixed-bias2-dense", Shape::Single(2), vec![L::Feedback(vec![L::Dense(2, Linear, true), L::Dense(2, Linear, false)], 2, false, false, Acc::Mean), L::Dense(1, Linear, false)], 1),
        ("deconv-dense-dense", Shape::Triple(1, 1, 2), vec![L::Deconv(1, (1, 2), (1, 1), (0, 0), Linear), L::Dense(2, Linear, true), L::Dense(1, Linear, false)], 1),
    ];
    let mut triples: Vec<(usize, usize, usize)> = Vec::new();
    for n in 1..=5usize {
        for b in 1..=6usize {
            for e in 1..=2usize {
                triples.push((n, b, e));
            }
        }
    }
    let mut out = Vec::new();
    let mut k = 0u64;
    for (name, input, layers, nout) in nets.iter() {
        for obj in [Obj::MSE, Obj::AE] {
            for (n, b, e) in triples.iter() {
                k += 1;
                // AE forks per output element and sample: keep it small
                if obj == Obj::AE && (*n > 2 || *e > 1 || *name != "dense-dense") {
                    continue;
                }
                if !full {
                    // 12 triples rotating with the seed, always containing B=1, B∤N, B>N, E=2
                    let must = matches!((n, b, e), (3, 1, 1) | (3, 2, 1) | (2, 5, 1) | (4, 2, 2) | (5, 3, 1) | (1, 1, 2));
                    // every network sees at least one group with several samples and a partial last group
                    let per_net = matches!((n, b, e), (3, 2, 1) | (4, 3, 2));
                    if !(must && *name == "dense-dense") && !per_net && mix(k ^ seed) % 23 != 0 {
                        continue;
                    }
                }
                out.push(learn_case(name, input.clone(), layers.clone(), *nout, obj, *n, *b, *e));
            }
        }
    }
    // an objective whose loss can be exactly zero while its gradient is not (cross-entropy of a soft-max output)
    // (three outputs: the library's soft-max backward - known finding C01 - is identically zero for two outputs, which made
    // the two-output version of this case blind to a dropped sample gradient)
    out.push(learn_case("dense-softmax3", Shape::Single(2), vec![L::Dense(3, Softmax, true)], 3, Obj::CrossEntropy, 2, 2, 1));
    out.push(learn_case("dense-softmax3-zt", Shape::Single(2), vec![L::Dense(3, Softmax, true)], 3, Obj::CrossEntropy, 2, 2, 1));
    if full {
        out.push(learn_case("dense-softmax", Shape::Single(2), vec![L::Dense(2, Softmax, true)], 2, Obj::CrossEntropy, 2, 2, 1));
        out.push(learn_case("dense-softmax3", Shape::Single(2), vec![L::Dense(3, Softmax, true)], 3, Obj::CrossEntropy, 3, 2, 1));
        out.push(learn_case("dense-softmax3-zt", Shape::Single(2), vec![L::Dense(3, Softmax, true)], 3, Obj::CrossEntropy, 3, 2, 1));
    }
    // groups larger than the library's internal parallel chunk size (64) are still one group
    let one = vec![L::Dense(1, Linear, false)];
    let big: &[(usize, usize, usize)] = if full { &[(65, 65, 1), (70, 100, 1), (130, 65, 2), (129, 128, 1), (200, 100, 1)] } else { &[(65, 65, 1), (70, 100, 1), (130, 65, 1)] };
    for (n, b, e) in big.iter() {
        out.push(learn_case("dense1", Shape::Single(1), one.clone(), 1, Obj::MSE, *n, *b, *e));
    }
    out.push(unstubbed_case());
    out.push(control_case());
    out
}
