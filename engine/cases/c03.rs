//! C03 — optimizer steps follow the documented update rules for every history.

use super::*;
use neurons::optimizer::{Adam, AdamW, Optimizer, RMSprop, SGD, SGDM};

#[derive(Clone, Copy, Debug, PartialEq)]
pub enum Kind {
    SGD { decay: bool },
    SGDM { decay: bool, dampening: bool },
    Adam { decay: bool },
    AdamW,
    RMSprop { decay: bool, momentum: bool, centered: bool },
}

impl Kind {
    fn tag(&self) -> String {
        match self {
            Kind::SGD { decay } => format!("sgd-decay{}", *decay as u8),
            Kind::SGDM { decay, dampening } => format!("sgdm-decay{}-damp{}", *decay as u8, *dampening as u8),
            Kind::Adam { decay } => format!("adam-decay{}", *decay as u8),
            Kind::AdamW => "adamw".into(),
            Kind::RMSprop { decay, momentum, centered } => format!("rmsprop-decay{}-mom{}-cent{}", *decay as u8, *momentum as u8, *centered as u8),
        }
    }
    fn family(&self) -> &'static str {
        match self {
            Kind::SGD { .. } => "SGD::update",
            Kind::SGDM { .. } => "SGDM::update",
            Kind::Adam { .. } => "Adam::update",
            Kind::AdamW => "AdamW::update",
            Kind::RMSprop { .. } => "RMSprop::update",
        }
    }
}

/// Hyper-parameters: symbolic reals constrained to their valid open ranges, or concrete values.
#[derive(Clone)]
pub struct Hyper {
    pub lr: S,
    pub decay: S,
    pub momentum: S,
    pub dampening: S,
    pub beta1: S,
    pub beta2: S,
    pub eps: S,
    pub alpha: S,
}

fn sym_hyper(ctx: &mut Ctx) -> Hyper {
    let mut open = |ctx: &mut Ctx, name: &str, lo: f32, hi: f32| -> S {
        let v = ctx.var(name);
        ctx.assume(B::Lt(lit(lo), v));
        ctx.assume(B::Lt(v, lit(hi)));
        v
    };
    Hyper {
        lr: open(ctx, "lr", 0.0, 10.0),
        decay: open(ctx, "decay", 0.0, 1.0),
        momentum: open(ctx, "momentum", 0.0, 1.0),
        dampening: open(ctx, "dampening", 0.0, 1.0),
        beta1: open(ctx, "beta1", 0.0, 1.0),
        beta2: open(ctx, "beta2", 0.0, 1.0),
        eps: open(ctx, "eps", 0.0, 1.0),
        alpha: open(ctx, "alpha", 0.0, 1.0),
    }
}

fn conc_hyper(lr: f32, decay: f32, alpha: f32, beta1: f32, beta2: f32, eps: f32) -> Hyper {
    Hyper { lr: lit(lr), decay: lit(decay), momentum: lit(0.9), dampening: lit(0.1), beta1: lit(beta1), beta2: lit(beta2), eps: lit(eps), alpha: lit(alpha) }
}

fn build(kind: Kind, h: &Hyper) -> Optimizer {
    match kind {
        Kind::SGD { decay } => SGD::create(h.lr, if decay { Some(h.decay) } else { None }),
        Kind::SGDM { decay, dampening } => SGDM::create(h.lr, h.momentum, if dampening { h.dampening } else { lit(0.0) }, if decay { Some(h.decay) } else { None }),
        Kind::Adam { decay } => Adam::create(h.lr, h.beta1, h.beta2, h.eps, if decay { Some(h.decay) } else { None }),
        Kind::AdamW => AdamW::create(h.lr, h.beta1, h.beta2, h.eps, h.decay),
        Kind::RMSprop { decay, momentum, centered } => RMSprop::create(h.lr, h.alpha, h.eps, if decay { Some(h.decay) } else { None }, if momentum { Some(h.momentum) } else { None }, centered),
    }
}

fn powi(x: S, n: i32) -> S {
    let mut r = x;
    for _ in 1..n {
        r = r * x;
    }
    r
}

/// The documented update equations, applied element-wise; optimizer state for one element.
#[derive(Clone)]
pub struct RefState {
    v: S,
    m: S,
    g: S,
    b: S,
}

impl RefState {
    fn new() -> RefState {
        RefState { v: lit(0.0), m: lit(0.0), g: lit(0.0), b: lit(0.0) }
    }
    fn step(&mut self, kind: Kind, h: &Hyper, stepnr: i32, w: S, grad: S) -> S {
        let one = lit(1.0);
        match kind {
            Kind::SGD { decay } => {
                let g = if decay { grad + h.decay * w } else { grad };
                w - h.lr * g
            }
            Kind::SGDM { decay, dampening } => {
                let mut g = if decay { grad + h.decay * w } else { grad };
                let damp = if dampening { h.dampening } else { lit(0.0) };
                if stepnr > 1 {
                    self.v = h.momentum * self.v + (one - damp) * g;
                } else {
                    self.v = g;
                }
                g = self.v;
                w - h.lr * g
            }
            Kind::Adam { .. } | Kind::AdamW => {
                let mut w = w;
                let mut g = grad;
                match kind {
                    Kind::Adam { decay: true } => g = g + h.decay * w,
                    Kind::AdamW => w = w - h.lr * h.decay * w,
                    _ => {}
                }
                self.m = h.beta1 * self.m + (one - h.beta1) * g;
                self.v = h.beta2 * self.v + (one - h.beta2) * (g * g);
                // `beta.powi(t)`: a product chain for a symbolic beta (same as `powi` above), the platform's powi for a constant
                let _ = powi;
                let m = self.m / (one - h.beta1.powi(stepnr));
                let v = self.v / (one - h.beta2.powi(stepnr));
                w - h.lr * m / (v.sqrt() + h.eps)
            }
            Kind::RMSprop { decay, momentum, centered } => {
                let g = if decay { grad + h.decay * w } else { grad };
                self.v = h.alpha * self.v + (one - h.alpha) * (g * g);
                let mut v = self.v;
                if centered {
                    self.g = h.alpha * self.g + (one - h.alpha) * g;
                    v = (v - self.g * self.g).max(lit(0.0));
                }
                if momentum {
                    self.b = h.momentum * self.b + g / (v.sqrt() + h.eps);
                    w - h.lr * self.b
                } else {
                    w - h.lr * g / (v.sqrt() + h.eps)
                }
            }
        }
    }
}

#[derive(Clone, Copy, Debug, PartialEq)]
pub enum Rk {
    D1(usize),
    D2(usize, usize),
    D3(usize, usize, usize),
}
impl Rk {
    fn tag(&self) -> String {
        match self {
            Rk::D1(a) => format!("{}", a),
            Rk::D2(a, b) => format!("{}x{}", a, b),
            Rk::D3(a, b, c) => format!("{}x{}x{}", a, b, c),
        }
    }
    fn n(&self) -> usize {
        match *self {
            Rk::D1(a) => a,
            Rk::D2(a, b) => a * b,
            Rk::D3(a, b, c) => a * b * c,
        }
    }
    fn wrap(&self, v: &[S]) -> Tensor {
        match *self {
            Rk::D1(_) => t1(&v.to_vec()),
            Rk::D2(_, b) => t2(&v.chunks(b).map(|r| r.to_vec()).collect()),
            Rk::D3(_, b, c) => t3(&v.chunks(b * c).map(|m| m.chunks(c).map(|r| r.to_vec()).collect()).collect()),
        }
    }
    fn zeros(&self) -> Tensor {
        self.wrap(&vec![lit(0.0); self.n()])
    }
}

/// optimizer state for `layers` x `filters` slots (weights and bias share the shape here)
fn alloc(opt: &mut Optimizer, layers: usize, filters: usize, rk: Rk) {
    let vectors: Vec<Vec<Vec<Tensor>>> = (0..layers).map(|_| (0..filters).map(|_| vec![rk.zeros(), rk.zeros()]).collect()).collect();
    opt.validate(vectors);
}

/// (a) the k-step result equals the documented equations applied k times
pub fn rule_case(kind: Kind, rk: Rk, steps: Vec<i32>) -> Case {
    rule_case_h(kind, rk, steps, false)
}

/// `closed_end`: weight decay and dampening sit at the closed end of their ranges — exactly 0.0, a valid setting (no decay /
/// no dampening) and not one of the "0 means default" parameters (learning rate, momentum, betas, epsilon, alpha)
pub fn rule_case_h(kind: Kind, rk: Rk, steps: Vec<i32>, closed_end: bool) -> Case {
    let st: Vec<String> = steps.iter().map(|s| s.to_string()).collect();
    Case {
        id: format!("C03/rule/{}/{}/steps{}{}", kind.tag(), rk.tag(), st.join("-"), if closed_end { "/decay0-dampening0" } else { "" }),
        property: "C03",
        family: kind.family(),
        class: "rule".into(),
        no_ties: false,
        max_paths: 64,
        run: Box::new(move |ctx| {
            let mut h = sym_hyper(ctx);
            if closed_end {
                h.decay = lit(0.0);
                h.dampening = lit(0.0);
            }
            let mut opt = build(kind, &h);
            alloc(&mut opt, 1, 1, rk);
            let n = rk.n();
            let w0 = v1(ctx, "w", n);
            let mut w = rk.wrap(&w0);
            let mut refw = w0.clone();
            let mut st: Vec<RefState> = (0..n).map(|_| RefState::new()).collect();
            for (k, stepnr) in steps.iter().enumerate() {
                let g = v1(ctx, &format!("g{}", k), n);
                let mut gt = rk.wrap(&g);
                opt.update(0, 0, false, *stepnr, &mut w, &mut gt);
                for i in 0..n {
                    refw[i] = st[i].step(kind, &h, *stepnr, refw[i], g[i]);
                }
                let got = elems(&w);
                ctx.fact(&format!("step{}-shape", k), got.len() == n && dims(&w) == dims(&rk.zeros()), format!("{:?}", dims(&w)));
                for i in 0..n.min(got.len()) {
                    ctx.eq(&format!("step{}-param[{}]", k, i), got[i], refw[i]);
                }
            }
        }),
    }
}

/// (a') the rule far into a run: concrete hyper-parameters (learning rate 0.5 so that a step is of the order of the
/// parameters), step numbers in the thousands — "all step counts and step-number sequences >= 1"
pub fn late_rule_case(kind: Kind, rk: Rk, steps: Vec<i32>) -> Case {
    let st: Vec<String> = steps.iter().map(|s| s.to_string()).collect();
    Case {
        id: format!("C03/rule-late/{}/{}/steps{}", kind.tag(), rk.tag(), st.join("-")),
        property: "C03",
        family: kind.family(),
        class: "rule".into(),
        no_ties: false,
        max_paths: 64,
        run: Box::new(move |ctx| {
            let h = conc_hyper(0.5, 0.01, 0.99, 0.9, 0.999, 1e-8);
            let mut opt = build(kind, &h);
            alloc(&mut opt, 1, 1, rk);
            let n = rk.n();
            let w0 = v1(ctx, "w", n);
            let mut w = rk.wrap(&w0);
            let mut refw = w0.clone();
            let mut st: Vec<RefState> = (0..n).map(|_| RefState::new()).collect();
            for (k, stepnr) in steps.iter().enumerate() {
                let g = v1(ctx, &format!("g{}", k), n);
                let mut gt = rk.wrap(&g);
                opt.update(0, 0, false, *stepnr, &mut w, &mut gt);
                for i in 0..n {
                    refw[i] = st[i].step(kind, &h, *stepnr, refw[i], g[i]);
                }
                let got = elems(&w);
                for i in 0..n.min(got.len()) {
                    ctx.eq(&format!("step{}-param[{}]", k, i), got[i], refw[i]);
                }
            }
        }),
    }
}

/// (b) the same data stored as a vector, a matrix or a 3-D kernel gives the same Float32 results
pub fn rank_case(kind: Kind) -> Case {
    Case {
        id: format!("C03/rank-independence/{}", kind.tag()),
        property: "C03",
        family: kind.family(),
        class: "rank-independence".into(),
        no_ties: false,
        max_paths: 64,
        run: Box::new(move |ctx| {
            let h = sym_hyper(ctx);
            let w0 = v1(ctx, "w", 4);
            let gs: Vec<V1> = (0..2).map(|k| v1(ctx, &format!("g{}", k), 4)).collect();
            let mut results: Vec<V1> = Vec::new();
            for rk in [Rk::D1(4), Rk::D2(2, 2), Rk::D3(1, 2, 2)] {
                let mut opt = build(kind, &h);
                alloc(&mut opt, 1, 1, rk);
                let mut w = rk.wrap(&w0);
                for (k, g) in gs.iter().enumerate() {
                    let mut gt = rk.wrap(g);
                    opt.update(0, 0, false, k as i32 + 1, &mut w, &mut gt);
                }
                results.push(elems(&w));
            }
            for i in 0..4 {
                ctx.claim(&format!("matrix-vs-vector[{}]", i), Th::Fp, B::Ident(results[1][i], results[0][i]));
                ctx.claim(&format!("kernel-vs-vector[{}]", i), Th::Fp, B::Ident(results[2][i], results[0][i]));
            }
        }),
    }
}

/// (c) state kept for one (layer, filter, bias) slot never influences another slot
pub fn slot_case(kind: Kind) -> Case {
    Case {
        id: format!("C03/slot-isolation/{}", kind.tag()),
        property: "C03",
        family: kind.family(),
        class: "slot-isolation".into(),
        no_ties: false,
        max_paths: 64,
        run: Box::new(move |ctx| {
            let h = sym_hyper(ctx);
            let rk = Rk::D1(2);
            let slots: Vec<(usize, usize, bool)> = vec![(0, 0, false), (0, 0, true), (0, 1, false), (1, 0, false)];
            let w0: Vec<V1> = (0..slots.len()).map(|s| v1(ctx, &format!("w{}", s), 2)).collect();
            let gs: Vec<Vec<V1>> = (0..slots.len()).map(|s| (0..2).map(|k| v1(ctx, &format!("g{}_{}", s, k), 2)).collect()).collect();
            // interleaved: step 1 for every slot (in order), then step 2 in reverse order
            let mut opt = build(kind, &h);
            alloc(&mut opt, 2, 2, rk);
            let mut ws: Vec<Tensor> = w0.iter().map(|w| rk.wrap(w)).collect();
            for s in 0..slots.len() {
                let mut g = rk.wrap(&gs[s][0]);
                opt.update(slots[s].0, slots[s].1, slots[s].2, 1, &mut ws[s], &mut g);
            }
            for s in (0..slots.len()).rev() {
                let mut g = rk.wrap(&gs[s][1]);
                opt.update(slots[s].0, slots[s].1, slots[s].2, 2, &mut ws[s], &mut g);
            }
            // solo runs
            for s in 0..slots.len() {
                let mut solo = build(kind, &h);
                alloc(&mut solo, 2, 2, rk);
                let mut w = rk.wrap(&w0[s]);
                for k in 0..2 {
                    let mut g = rk.wrap(&gs[s][k]);
                    solo.update(slots[s].0, slots[s].1, slots[s].2, k as i32 + 1, &mut w, &mut g);
                }
                let (a, b) = (elems(&ws[s]), elems(&w));
                for i in 0..2 {
                    ctx.claim(&format!("slot{}[{}]", s, i), Th::Fp, B::Ident(a[i], b[i]));
                }
            }
        }),
    }
}

/// (d) parameters never become NaN or infinite (Float32, k steps from fresh state, concrete hyper-parameters)
pub fn finite_case(kind: Kind, hname: &'static str, h: Hyper, steps: usize, constant_gradient: bool) -> Case {
    finite_case_rank(kind, hname, h, steps, constant_gradient, Rk::D1(1))
}

pub fn finite_case_rank(kind: Kind, hname: &'static str, h: Hyper, steps: usize, constant_gradient: bool, rk: Rk) -> Case {
    Case {
        id: format!("C03/finite/{}/{}/k{}{}{}", kind.tag(), hname, steps, if constant_gradient { "/constant-gradient" } else { "" }, match rk { Rk::D1(_) => "", Rk::D2(..) => "/matrix", Rk::D3(..) => "/kernel" }),
        property: "C03",
        family: kind.family(),
        class: "finite".into(),
        no_ties: false,
        max_paths: 64,
        run: Box::new(move |ctx| {
            let mut opt = build(kind, &h);
            alloc(&mut opt, 1, 1, rk);
            ctx.fp_bound = Some(1024.0);
            let w0 = v1(ctx, "w", 1);
            let mut w = rk.wrap(&w0);
            let gconst = v1(ctx, "g", 1);
            for k in 0..steps {
                let g = if constant_gradient { gconst.clone() } else { v1(ctx, &format!("g{}", k), 1) };
                // gradients are either exactly zero or of magnitude >= 2^-20 (moderate magnitudes, DESIGN §5 C03 d)
                let tiny = lit(9.5367431640625e-7);
                ctx.assume(B::Or(vec![B::Eq(g[0], lit(0.0)), B::Le(tiny, g[0].abs())]));
                let mut gt = rk.wrap(&g);
                opt.update(0, 0, false, k as i32 + 1, &mut w, &mut gt);
                ctx.claim(&format!("step{}-finite", k), Th::Fp, B::finite(elems(&w)[0]));
            }
        }),
    }
}

/// network level: `Network::update` routes every parameter tensor to its own slot
pub fn network_slots_case(kind: Kind) -> Case {
    Case {
        id: format!("C03/network-slots/{}", kind.tag()),
        property: "C03",
        family: "Network::update",
        class: "slot-isolation".into(),
        no_ties: false,
        max_paths: 64,
        run: Box::new(move |ctx| {
            let h = sym_hyper(ctx);
            use Act::Linear;
            let spec = vec![L::Conv(2, (1, 2), (1, 1), (0, 0), (1, 1), Linear), L::Dense(2, Linear, true), L::Dense(1, Linear, true)];
            let mut net = build_net(Shape::Triple(1, 1, 3), &spec);
            symbolize(ctx, &mut net, "");
            net.set_optimizer(build(kind, &h));
            let before: Vec<(Vec<Tensor>, Option<Tensor>)> = net.layers.iter().map(|l| hooks::params(l)).collect();
            // gradients of the right shapes, two steps
            let mut grads: Vec<(Vec<Tensor>, Vec<Option<Tensor>>)> = Vec::new();
            for k in 0..2 {
                let mut wg = Vec::new();
                let mut bg = Vec::new();
                for (i, (ws, b)) in before.iter().enumerate().rev() {
                    match &net.layers[i] {
                        Layer::Dense(_) => {
                            let d = d2(&ws[0]);
                            wg.push(t2(&v2(ctx, &format!("G{}L{}w", k, i), d.len(), d[0].len())));
                            bg.push(b.as_ref().map(|b| t1(&v1(ctx, &format!("G{}L{}b", k, i), d1(b).len()))));
                        }
                        _ => {
                            let d = d3(&ws[0]);
                            wg.push(Tensor::quadruple(v4(ctx, &format!("G{}L{}k", k, i), ws.len(), d.len(), d[0].len(), d[0][0].len())));
                            bg.push(None);
                        }
                    }
                }
                grads.push((wg, bg));
            }
            for (k, (wg, bg)) in grads.iter().enumerate() {
                net.verif_update(k as i32 + 1, wg.clone(), bg.clone());
            }
            // solo reference: every parameter tensor on its own fresh optimizer
            let n = net.layers.len();
            for (i, (ws, b)) in before.iter().enumerate() {
                let (aw, ab) = hooks::params(&net.layers[i]);
                for (f, w0) in ws.iter().enumerate() {
                    let rk = match &w0.data {
                        Data::Double(d) => Rk::D2(d.len(), d[0].len()),
                        Data::Triple(d) => Rk::D3(d.len(), d[0].len(), d[0][0].len()),
                        _ => Rk::D1(elems(w0).len()),
                    };
                    let mut solo = build(kind, &h);
                    alloc(&mut solo, 1, 1, rk);
                    let mut w = w0.clone();
                    for (k, (wg, _)) in grads.iter().enumerate() {
                        let gt = &wg[n - 1 - i];
                        let mut g = match &gt.data {
                            Data::Quadruple(_) => gt.quadruple_to_vec_triple()[f].clone(),
                            _ => gt.clone(),
                        };
                        solo.update(0, 0, false, k as i32 + 1, &mut w, &mut g);
                    }
                    for (j, (x, y)) in elems(&aw[f]).iter().zip(elems(&w).iter()).enumerate() {
                        ctx.claim(&format!("L{}-weights{}[{}]", i, f, j), Th::Fp, B::Ident(*x, *y));
                    }
                }
                if let (Some(b0), Some(ab)) = (b, ab) {
                    let mut solo = build(kind, &h);
                    alloc(&mut solo, 1, 1, Rk::D1(elems(b0).len()));
                    let mut w = b0.clone();
                    for (k, (_, bg)) in grads.iter().enumerate() {
                        let mut g = bg[n - 1 - i].clone().unwrap();
                        solo.update(0, 0, true, k as i32 + 1, &mut w, &mut g);
                    }
                    for (j, (x, y)) in elems(&ab).iter().zip(elems(&w).iter()).enumerate() {
                        ctx.claim(&format!("L{}-bias[{}]", i, j), Th::Fp, B::Ident(*x, *y));
                    }
                }
            }
        }),
    }
}

/// feedback level: `Feedback::update` routes every filter / bias of the block's layers to its own slot
/// (single loop, so the coupling step is the identity and each tensor must equal its solo run)
pub fn feedback_slots_case(kind: Kind) -> Case {
    Case {
        id: format!("C03/feedback-slots/{}", kind.tag()),
        property: "C03",
        family: "Feedback::update",
        class: "slot-isolation".into(),
        no_ties: false,
        max_paths: 64,
        run: Box::new(move |ctx| {
            let h = sym_hyper(ctx);
            use Act::Linear;
            let block = vec![L::Conv(2, (1, 2), (1, 1), (0, 0), (1, 1), Linear), L::Deconv(1, (1, 2), (1, 1), (0, 0), Linear)];
            let mut net = build_net(Shape::Triple(1, 1, 3), &[L::Feedback(block, 1, false, false, Acc::Mean)]);
            if let Layer::Feedback(fb) = &mut net.layers[0] {
                for (j, l) in fb.layers.iter_mut().enumerate() {
                    symbolize_layer(ctx, l, &format!("u{}", j));
                }
            }
            net.set_optimizer(build(kind, &h));
            let before: Vec<(Vec<Tensor>, Option<Tensor>)> = match &net.layers[0] {
                Layer::Feedback(fb) => fb.layers.iter().map(|l| hooks::params(l)).collect(),
                _ => unreachable!(),
            };
            let m = before.len();
            let mut grads: Vec<Vec<Tensor>> = Vec::new();
            for k in 0..2 {
                let mut wg = Vec::new();
                for (j, (ws, _)) in before.iter().enumerate().rev() {
                    let d = d3(&ws[0]);
                    wg.push(Tensor::quadruple(v4(ctx, &format!("G{}u{}k", k, j), ws.len(), d.len(), d[0].len(), d[0][0].len())));
                }
                grads.push(wg);
            }
            for (k, wg) in grads.iter().enumerate() {
                if let Layer::Feedback(fb) = &mut net.layers[0] {
                    let mut w = Tensor::nested(wg.clone());
                    let mut b = Tensor::nestedoptional(vec![None; m]);
                    fb.update(k as i32 + 1, &mut w, &mut b);
                }
            }
            let after: Vec<(Vec<Tensor>, Option<Tensor>)> = match &net.layers[0] {
                Layer::Feedback(fb) => fb.layers.iter().map(|l| hooks::params(l)).collect(),
                _ => unreachable!(),
            };
            for j in 0..m {
                for (f, w0) in before[j].0.iter().enumerate() {
                    let d = d3(w0);
                    let rk = Rk::D3(d.len(), d[0].len(), d[0][0].len());
                    let mut solo = build(kind, &h);
                    alloc(&mut solo, 1, 1, rk);
                    let mut w = w0.clone();
                    for (k, wg) in grads.iter().enumerate() {
                        let mut g = wg[m - 1 - j].quadruple_to_vec_triple()[f].clone();
                        solo.update(0, 0, false, k as i32 + 1, &mut w, &mut g);
                    }
                    for (i, (x, y)) in elems(&after[j].0[f]).iter().zip(elems(&w).iter()).enumerate() {
                        ctx.eq(&format!("layer{}-filter{}[{}]", j, f, i), *x, *y);
                    }
                }
            }
        }),
    }
}

/// Negative control: Adam compared with a reference that forgets the bias correction.
pub fn control_case() -> Case {
    Case {
        id: "C03/control/adam-without-bias-correction".into(),
        property: "C03",
        family: "control",
        class: "control".into(),
        no_ties: false,
        max_paths: 4,
        run: Box::new(move |ctx| {
            let h = sym_hyper(ctx);
            let kind = Kind::Adam { decay: false };
            let mut opt = build(kind, &h);
            alloc(&mut opt, 1, 1, Rk::D1(1));
            let w0 = v1(ctx, "w", 1);
            let g = v1(ctx, "g", 1);
            let mut w = t1(&w0);
            opt.update(0, 0, false, 1, &mut w, &mut t1(&g));
            let m = (lit(1.0) - h.beta1) * g[0];
            let v = (lit(1.0) - h.beta2) * (g[0] * g[0]);
            ctx.eq("step0-param[0]", elems(&w)[0], w0[0] - h.lr * m / (v.sqrt() + h.eps));
        }),
    }
}

pub fn kinds(full: bool) -> Vec<Kind> {
    let mut v = vec![
        Kind::SGD { decay: false },
        Kind::SGD { decay: true },
        Kind::SGDM { decay: false, dampening: false },
        Kind::SGDM { decay: true, dampening: true },
        Kind::Adam { decay: false },
        Kind::Adam { decay: true },
        Kind::AdamW,
        Kind::RMSprop { decay: false, momentum: false, centered: false },
        Kind::RMSprop { decay: true, momentum: true, centered: true },
    ];
    if full {
        v.extend([
            Kind::SGDM { decay: true, dampening: false },
            Kind::SGDM { decay: false, dampening: true },
            Kind::RMSprop { decay: false, momentum: true, centered: false },
            Kind::RMSprop { decay: false, momentum: false, centered: true },
            Kind::RMSprop { decay: true, momentum: false, centered: false },
            Kind::RMSprop { decay: true, momentum: true, centered: false },
            Kind::RMSprop { decay: true, momentum: false, centered: true },
            Kind::RMSprop { decay: false, momentum: true, centered: true },
        ]);
    }
    v
}

pub fn cases(tier: Tier, seed: u64) -> Vec<Case> {
    let full = tier == Tier::Thorough;
    let mut out = Vec::new();
    let seqs: Vec<Vec<i32>> = if full { vec![vec![1, 2, 3], vec![1, 1, 2], vec![2, 5, 7], vec![1], vec![3, 3]] } else { vec![vec![1, 2], vec![2, 5], vec![1, 1]] };
    let ranks = [Rk::D1(2), Rk::D2(2, 1), Rk::D3(1, 1, 2)];
    for (ki, kind) in kinds(full).into_iter().enumerate() {
        for (si, steps) in seqs.iter().enumerate() {
            for (ri, rk) in ranks.iter().enumerate() {
                // quick tier: every optimizer x every sequence, rank rotating with the seed
                if !full && (ki + si + ri + seed as usize) % 3 != 0 {
                    continue;
                }
                out.push(rule_case(kind, *rk, steps.clone()));
            }
        }
        out.push(rank_case(kind));
        out.push(slot_case(kind));
        // decay / dampening exactly 0 where the kind takes them
        let takes = matches!(kind, Kind::SGD { decay: true } | Kind::SGDM { decay: true, .. } | Kind::Adam { decay: true } | Kind::AdamW | Kind::RMSprop { decay: true, .. });
        if takes {
            out.push(rule_case_h(kind, ranks[(ki + seed as usize) % 3], vec![1, 2], true));
            if full {
                out.push(rule_case_h(kind, ranks[(ki + 1 + seed as usize) % 3], vec![2, 5], true));
            }
        }
    }
    for kind in [Kind::SGDM { decay: true, dampening: true }, Kind::Adam { decay: true }, Kind::RMSprop { decay: true, momentum: true, centered: true }] {
        out.push(network_slots_case(kind));
    }
    // step numbers in the thousands
    for (ki, kind) in [Kind::Adam { decay: false }, Kind::AdamW, Kind::SGDM { decay: false, dampening: true }, Kind::RMSprop { decay: false, momentum: true, centered: false }].into_iter().enumerate() {
        let late: Vec<Vec<i32>> = if full { vec![vec![1001], vec![1, 1500], vec![16000], vec![999, 1000], vec![100000]] } else { vec![vec![1001], vec![1, 1500]] };
        for (si, steps) in late.into_iter().enumerate() {
            out.push(late_rule_case(kind, ranks[(ki + si + seed as usize) % 3], steps));
        }
    }
    for kind in [Kind::Adam { decay: false }, Kind::SGDM { decay: false, dampening: false }, Kind::RMSprop { decay: false, momentum: true, centered: false }] {
        out.push(feedback_slots_case(kind));
    }
    if full {
        out.push(network_slots_case(Kind::AdamW));
        out.push(network_slots_case(Kind::SGD { decay: true }));
    }
    // (d) finite-ness on a hyper-parameter grid
    let k = if full { 3 } else { 2 };
    let grid: Vec<(&'static str, Hyper)> = vec![
        ("defaults", conc_hyper(0.001, 0.01, 0.99, 0.9, 0.999, 1e-8)),
        ("lr0.1-alpha0.9-beta0.5", conc_hyper(0.1, 0.01, 0.9, 0.5, 0.5, 1e-7)),
    ];
    for kind in kinds(full) {
        for (name, h) in grid.iter() {
            // quick tier: the instances the portfolio decides in well under a minute (measured); the rest is thorough-only
            let heavy = matches!(kind, Kind::Adam { decay: true } | Kind::RMSprop { decay: true, .. });
            if !full && (heavy || (*name != "defaults" && !matches!(kind, Kind::Adam { decay: false }))) {
                continue;
            }
            out.push(finite_case(kind, name, h.clone(), k, false));
        }
    }
    // centred RMSprop with a constant gradient: v - gbar^2 is ~0 and may round below zero
    for (name, alpha) in [("alpha0.001", 0.001f32), ("alpha0.5", 0.5), ("alpha0.99", 0.99)] {
        if !full && name == "alpha0.99" {
            continue;
        }
        let h = conc_hyper(0.01, 0.01, alpha, 0.9, 0.999, 1e-8);
        out.push(finite_case(Kind::RMSprop { decay: false, momentum: false, centered: true }, name, h.clone(), 3, true));
        if name == "alpha0.001" || full {
            // every rank has its own copy of the update loop
            out.push(finite_case_rank(Kind::RMSprop { decay: false, momentum: false, centered: true }, name, h.clone(), 3, true, Rk::D2(1, 1)));
            out.push(finite_case_rank(Kind::RMSprop { decay: false, momentum: false, centered: true }, name, h, 3, true, Rk::D3(1, 1, 1)));
        }
    }
    out.push(control_case());
    out
}
