//! C11 — a feedback block computes the repeated, optionally skip-combined, layer sequence.

use super::*;

pub fn block_case(name: &'static str, input: Shape, block: Vec<L>, loops: usize, inskips: bool, outskips: bool, acc: Acc, dense_after: bool) -> Case {
    Case {
        id: format!("C11/{}/loops{}/in{}out{}/{}/{}", name, loops, inskips as u8, outskips as u8, acc.name(), if dense_after { "dense-successor" } else { "last" }),
        property: "C11",
        family: "Feedback::forward",
        class: format!("loops{}-in{}-out{}-{}", if loops == 1 { "=1" } else { ">1" }, inskips as u8, outskips as u8, acc.name()),
        no_ties: false,
        max_paths: 256,
        run: Box::new(move |ctx| {
            let period = block.len();
            let mut spec = vec![L::Feedback(block.clone(), loops, inskips, outskips, acc)];
            if dense_after {
                spec.push(L::Dense(2, Act::Linear, true));
            }
            let mut net = build_net(input.clone(), &spec);
            symbolize_feedback(ctx, &mut net.layers[0], period, "B");
            if dense_after {
                symbolize_layer(ctx, &mut net.layers[1], "D");
            }
            let x = input_tensor(ctx, &input, "x");
            let (_, activated, _, _) = net.forward(&x);
            let got = &activated[1];
            // explicit unrolling with the layers' public forward
            let fb = match &net.layers[0] {
                Layer::Feedback(f) => f,
                _ => unreachable!(),
            };
            ctx.require(fb.layers.len() == period * loops, "the block stores one layer object per unrolled repetition");
            let mut outs: Vec<Tensor> = Vec::new();
            let mut cur = x.clone();
            for r in 0..loops {
                if r > 0 && inskips {
                    cur = combine_t(acc, &cur, &[x.clone()]);
                }
                for j in 0..period {
                    cur = layer_forward(&fb.layers[r * period + j], &cur);
                }
                outs.push(cur.clone());
            }
            let mut last = outs.pop().unwrap();
            if outskips && !outs.is_empty() {
                last = combine_t(acc, &last, &outs);
            }
            let want = elems(&last);
            let g = elems(got);
            let want_dims = if dense_after { vec![want.len()] } else { dims(&last) };
            ctx.fact("output-shape", dims(got) == want_dims && shape_dims(&got.shape) == want_dims, format!("{:?} expected {:?}", dims(got), want_dims));
            ctx.fact("output-count", g.len() == want.len(), String::new());
            for i in 0..g.len().min(want.len()) {
                ctx.eq(&format!("output[{}]", i), g[i], want[i]);
                // the unrolling above applies the block's own layer objects in order, so the block's output is this very
                // Float32 value (not merely close to it): a shortcut that is only approximately right is a violation
                // (except a mean over three or more tensors, whose summation order the property does not fix)
                if !(acc == Acc::Mean && outskips && loops >= 3) {
                    ctx.claim(&format!("output-exact[{}]", i), Th::Fp, B::Ident(g[i], want[i]));
                }
            }
            if dense_after {
                let flat = t1(&want);
                let y = layer_forward(&net.layers[1], &flat);
                let (p, q) = (elems(&activated[2]), elems(&y));
                for i in 0..p.len().min(q.len()) {
                    ctx.eq(&format!("successor[{}]", i), p[i], q[i]);
                }
            }
        }),
    }
}

/// Negative control: the oracle unrolls one repetition too few.
pub fn control_case() -> Case {
    Case {
        id: "C11/control/one-repetition-too-few".into(),
        property: "C11",
        family: "control",
        class: "control".into(),
        no_ties: false,
        max_paths: 4,
        run: Box::new(move |ctx| {
            let mut net = build_net(Shape::Single(2), &[L::Feedback(vec![L::Dense(2, Act::Linear, true)], 2, false, false, Acc::Add)]);
            symbolize_feedback(ctx, &mut net.layers[0], 1, "B");
            let x = input_tensor(ctx, &Shape::Single(2), "x");
            let y = elems(&net.predict(&x));
            let fb = match &net.layers[0] {
                Layer::Feedback(f) => f,
                _ => unreachable!(),
            };
            let once = elems(&layer_forward(&fb.layers[0], &x));
            ctx.eq("output[0]", y[0], once[0]);
        }),
    }
}

pub fn cases(tier: Tier, seed: u64) -> Vec<Case> {
    let full = tier == Tier::Thorough;
    use Act::*;
    let blocks: Vec<(&'static str, Shape, Vec<L>)> = vec![
        ("dense2", Shape::Single(2), vec![L::Dense(2, Linear, true)]),
        ("dense3-dense2", Shape::Single(2), vec![L::Dense(3, Tanh, true), L::Dense(2, Linear, false)]),
        ("conv-k3p1", Shape::Triple(1, 2, 2), vec![L::Conv(1, (3, 3), (1, 1), (1, 1), (1, 1), Linear)]),
        ("deconv-conv", Shape::Triple(1, 2, 2), vec![L::Deconv(1, (2, 2), (1, 1), (0, 0), Linear), L::Conv(1, (2, 2), (1, 1), (0, 0), (1, 1), Sigmoid)]),
    ];
    let mut out = Vec::new();
    let mut k = 0u64;
    for (name, input, block) in blocks.iter() {
        for loops in 1..=3usize {
            for (ins, outs) in [(false, false), (true, false), (false, true), (true, true)] {
                for acc in Acc::all() {
                    for dense_after in [false, true] {
                        k += 1;
                        let spatial = matches!(input, Shape::Triple(..));
                        // quick: the dense block exhaustively; the other blocks on a seeded third; dense successor only for spatial blocks
                        if dense_after && !spatial && !full {
                            continue;
                        }
                        if !full && *name != "dense2" && mix(k ^ seed) % 3 != 0 {
                            continue;
                        }
                        if !full && loops == 3 && *name == "deconv-conv" {
                            continue;
                        }
                        out.push(block_case(name, input.clone(), block.clone(), loops, ins, outs, acc, dense_after));
                    }
                }
            }
        }
    }
    out.push(control_case());
    out
}
