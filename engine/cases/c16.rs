//! C16 — skip connections combine source and target inputs as configured.

use super::*;

fn try_connect(ctx: &mut Ctx, net: &mut Network, a: usize, b: usize) -> bool {
    let r = ctx.catch(|_| net.connect(a, b));
    r.is_ok()
}

fn distinct(conns: &[(usize, usize)]) -> bool {
    for i in 0..conns.len() {
        for j in 0..conns.len() {
            if i != j && (conns[i].0 == conns[j].0 || conns[i].1 == conns[j].1) {
                return false;
            }
        }
    }
    true
}

/// Forward clause + bookkeeping clause: the traced output equals the composition that applies every connection
/// whose `connect` call returned normally (in call order); pairwise distinct sources/targets must be accepted.
pub fn forward_case(name: &'static str, input: Shape, layers: Vec<L>, conns: Vec<(usize, usize)>, acc: Acc) -> Case {
    forward_case_loop(name, input, layers, conns, acc, None)
}

/// `looped`: a loop connection (outof, into) declared BEFORE the skip connections; only the bookkeeping clause is checked
/// then ("connections with pairwise distinct sources and targets are accepted") — what a loop computes is C17's subject
pub fn forward_case_loop(name: &'static str, input: Shape, layers: Vec<L>, conns: Vec<(usize, usize)>, acc: Acc, looped: Option<(usize, usize)>) -> Case {
    let tag: Vec<String> = conns.iter().map(|(a, b)| format!("{}-{}", a, b)).collect();
    Case {
        id: format!("C16/forward/{}/{}/{}{}", name, tag.join("+"), acc.name(), match looped { Some((o, i)) => format!("/after-loop{}to{}", o, i), None => String::new() }),
        property: "C16",
        family: "Network::{connect,forward}",
        class: format!("{}-{}", if distinct(&conns) { "distinct" } else if conns.iter().any(|c| conns.iter().filter(|d| d.1 == c.1).count() > 1) { "shared-target" } else { "shared-source" }, acc.name()),
        no_ties: false,
        max_paths: 256,
        run: Box::new(move |ctx| {
            let mut net = build_net(input.clone(), &layers);
            symbolize(ctx, &mut net, "");
            net.set_accumulation(acc.lib(), Accumulation::Mean);
            if let Some((outof, into)) = looped {
                net.loopback(outof, into, 1, std::sync::Arc::new(|x| lit(1.0) / x), false);
            }
            let mut accepted: Vec<(usize, usize)> = Vec::new();
            for (a, b) in conns.iter() {
                if try_connect(ctx, &mut net, *a, *b) {
                    accepted.push((*a, *b));
                }
            }
            if distinct(&conns) {
                ctx.fact("distinct-connections-accepted", accepted.len() == conns.len(), format!("requested {:?}, accepted {:?}", conns, accepted));
            }
            if looped.is_some() {
                return;
            }
            let x = input_tensor(ctx, &input, "x");
            let y = net.predict(&x);
            // oracle: inputs[i] = input processed by layer i
            let n = net.layers.len();
            let mut inputs: Vec<Tensor> = Vec::new();
            let mut cur = x.clone();
            for i in 0..n {
                // ordinary input, combined with the input that was fed to each accepted source (in call order)
                let mut xin = cur.clone();
                for (a, b) in accepted.iter() {
                    if *b == i {
                        let src = if *a == i { xin.clone() } else { inputs[*a].clone() };
                        let src = rewrap(&xin, &elems(&src));
                        xin = combine_t(acc, &xin, &[src]);
                    }
                }
                inputs.push(xin.clone());
                cur = layer_forward(&net.layers[i], &xin);
            }
            let (g, w) = (elems(&y), elems(&cur));
            ctx.fact("output-count", g.len() == w.len(), String::new());
            for i in 0..g.len().min(w.len()) {
                ctx.eq(&format!("output[{}]", i), g[i], w[i]);
            }
        }),
    }
}

/// Gradient clause (additive accumulation): every parameter gradient is the derivative of the traced forward.
pub fn gradient_case(name: &'static str, input: Shape, layers: Vec<L>, conns: Vec<(usize, usize)>) -> Case {
    let tag: Vec<String> = conns.iter().map(|(a, b)| format!("{}-{}", a, b)).collect();
    Case {
        id: format!("C16/gradient/{}/{}", name, tag.join("+")),
        property: "C16",
        family: "Network::backward (skip connection)",
        class: if distinct(&conns) { "distinct".into() } else { "shared-source".into() },
        no_ties: true,
        max_paths: 256,
        run: Box::new(move |ctx| {
            ctx.aligned_diff(true);
            let mut net = build_net(input.clone(), &layers);
            symbolize(ctx, &mut net, "");
            net.set_accumulation(Accumulation::Add, Accumulation::Mean);
            let mut accepted = 0;
            for (a, b) in conns.iter() {
                if try_connect(ctx, &mut net, *a, *b) {
                    accepted += 1;
                }
            }
            if accepted == 0 {
                return;
            }
            let x = input_tensor(ctx, &input, "x");
            let (pre, post, mx, fb) = net.forward(&x);
            let y = elems(post.last().unwrap());
            let g = v1(ctx, "g", y.len());
            let loss = sum(&g.iter().zip(y.iter()).map(|(a, b)| *a * *b).collect::<V1>());
            let (wg, bg) = net.verif_backward(t1(&g), &pre, &post, &mx, fb);
            let n = net.layers.len();
            for (i, layer) in net.layers.iter().enumerate() {
                let (ws, b) = hooks::params(layer);
                if ws.is_empty() {
                    continue;
                }
                match &ws[0].data {
                    Data::Double(d) => {
                        let gw = d2(&wg[n - 1 - i]);
                        for o in 0..d.len() {
                            for j in 0..d[0].len() {
                                ctx.grad(&format!("L{}.wgrad[{}][{}]", i, o, j), gw[o][j], loss, &format!("L{}w_{}_{}", i, o, j));
                            }
                        }
                    }
                    Data::Triple(d) => {
                        let gk = d4(&wg[n - 1 - i]);
                        for f in 0..ws.len() {
                            for c in 0..d.len() {
                                for h in 0..d[0].len() {
                                    for w in 0..d[0][0].len() {
                                        ctx.grad(&format!("L{}.kgrad[{}][{}][{}][{}]", i, f, c, h, w), gk[f][c][h][w], loss, &format!("L{}k{}_{}_{}_{}", i, f, c, h, w));
                                    }
                                }
                            }
                        }
                    }
                    _ => {}
                }
                if let (Some(b), Some(gb)) = (b, &bg[n - 1 - i]) {
                    let gb = d1(gb);
                    for o in 0..d1(&b).len() {
                        ctx.grad(&format!("L{}.bgrad[{}]", i, o), gb[o], loss, &format!("L{}b_{}", i, o));
                    }
                }
            }
        }),
    }
}

/// Negative control: the oracle ignores the connection.
pub fn control_case() -> Case {
    Case {
        id: "C16/control/oracle-without-the-connection".into(),
        property: "C16",
        family: "control",
        class: "control".into(),
        no_ties: false,
        max_paths: 4,
        run: Box::new(move |ctx| {
            let mut net = build_net(Shape::Single(2), &[L::Dense(2, Act::Linear, false), L::Dense(1, Act::Linear, false)]);
            symbolize(ctx, &mut net, "");
            net.connect(0, 1);
            let x = input_tensor(ctx, &Shape::Single(2), "x");
            let y = elems(&net.predict(&x));
            let w = elems(&range_forward(&net, 0, 1, &x));
            ctx.eq("output[0]", y[0], w[0]);
        }),
    }
}

pub fn cases(tier: Tier, seed: u64) -> Vec<Case> {
    let full = tier == Tier::Thorough;
    use Act::*;
    let chain = vec![L::Dense(2, Linear, false), L::Dense(2, Tanh, true), L::Dense(2, Linear, false), L::Dense(1, Linear, true)];
    let mixed = vec![L::Conv(1, (3, 3), (1, 1), (1, 1), (1, 1), Linear), L::Dense(4, Linear, true), L::Dense(2, Linear, false)];
    let sets: Vec<Vec<(usize, usize)>> = vec![
        vec![(0, 1)],
        vec![(0, 2)],
        vec![(1, 2)],
        vec![(1, 1)],
        vec![(0, 1), (1, 2)],
        vec![(0, 2), (1, 3)],
        vec![(0, 1), (0, 2)],
        vec![(0, 2), (1, 2)],
        vec![(0, 1), (1, 2), (2, 3)],
    ];
    let mut out = Vec::new();
    let mut n = 0u64;
    for conns in sets.iter() {
        // the last dense layer has 2 inputs like every other, so every pair a <= b < 4 has equal element counts
        for acc in Acc::all() {
            n += 1;
            if !full && conns.len() > 1 && mix(n ^ seed) % 2 == 0 && acc != Acc::Add {
                continue;
            }
            out.push(forward_case("dense-chain", Shape::Single(2), chain.clone(), conns.clone(), acc));
        }
    }
    // flat <-> spatial with the same element count: network input 1x2x2 feeding the dense layer with 4 inputs
    for acc in Acc::all() {
        out.push(forward_case("conv-dense-dense", Shape::Triple(1, 2, 2), mixed.clone(), vec![(0, 1)], acc));
        if full {
            out.push(forward_case("conv-dense-dense", Shape::Triple(1, 2, 2), mixed.clone(), vec![(0, 2)], acc));
        }
    }
    for conns in [vec![(0, 2)], vec![(0, 1)], vec![(0, 1), (1, 2)], vec![(0, 1), (0, 2)], vec![(0, 2), (1, 3)], vec![(1, 1)], vec![(1, 1), (1, 3)], vec![(1, 3), (1, 1)], vec![(2, 2), (2, 3), (0, 1)], vec![(1, 2), (2, 3)], vec![(1, 2), (2, 2)], vec![(0, 1), (1, 2), (2, 3)]] {
        out.push(gradient_case("dense-chain", Shape::Single(2), chain.clone(), conns));
    }
    out.push(gradient_case("conv-dense-dense", Shape::Triple(1, 2, 2), mixed.clone(), vec![(0, 1)]));
    // skip connections declared after a loop connection, with targets inside / outside / at the ends of the loop range
    for (conns, lp) in [(vec![(0usize, 1usize)], (2usize, 1usize)), (vec![(0, 2)], (2, 1)), (vec![(0, 1), (1, 3)], (2, 1)), (vec![(1, 3)], (2, 1)), (vec![(0, 2), (1, 3)], (2, 0))] {
        out.push(forward_case_loop("dense-chain", Shape::Single(2), chain.clone(), conns, Acc::Add, Some(lp)));
    }
    // source at a >= 1 with a different representation of the same element count than the target:
    // spatial 1x2x2 -> spatial 4x1x1, flat 4 -> spatial 1x2x2, spatial 1x2x2 -> flat 4
    let c1 = |f: usize, k: usize, p: usize| L::Conv(f, (k, k), (1, 1), (p, p), (1, 1), Linear);
    let reps: Vec<(&'static str, Shape, Vec<L>, (usize, usize))> = vec![
        ("conv-conv4-conv/1x2x2-into-4x1x1", Shape::Triple(1, 2, 2), vec![c1(1, 1, 0), c1(4, 2, 0), c1(2, 1, 0)], (1, 2)),
        ("dense-dense-conv/flat4-into-1x2x2", Shape::Single(2), vec![L::Dense(4, Linear, false), L::Dense(4, Tanh, true), c1(1, 2, 0)], (1, 2)),
        ("conv-conv-dense-dense/1x2x2-into-flat4", Shape::Triple(1, 2, 2), vec![c1(1, 1, 0), c1(1, 3, 1), L::Dense(2, Linear, false)], (1, 2)),
        ("conv-conv-conv/1x2x3-into-1x3x2", Shape::Triple(1, 2, 3), vec![c1(1, 1, 0), L::Conv(1, (2, 2), (1, 1), (1, 0), (1, 1), Linear), c1(1, 1, 0)], (1, 2)),
        ("conv-deconv-conv/2x1x2-into-1x2x2", Shape::Triple(1, 2, 2), vec![L::Conv(2, (2, 1), (1, 1), (0, 0), (1, 1), Linear), L::Deconv(1, (2, 1), (1, 1), (0, 0), Linear), c1(1, 2, 0)], (1, 2)),
    ];
    for (name, input, layers, conn) in reps.into_iter() {
        for acc in Acc::all() {
            if full || acc == Acc::Add || acc == Acc::Subtract {
                out.push(forward_case(name, input.clone(), layers.clone(), vec![conn], acc));
            }
        }
        out.push(gradient_case(name, input.clone(), layers.clone(), vec![conn]));
    }
    out.push(control_case());
    out
}
