//! C12 — validate and predict_batch are faithful aggregations of predict.

use super::*;

const CHUNK_EDGES: &[usize] = &[0, 63, 64, 128];

/// Data set of `n` samples: the samples at chunk boundaries (and the last one) are symbolic, the others constants.
fn dataset(ctx: &mut Ctx, n: usize, nin: usize, nout: usize, max_symbolic: usize, onehot: bool, prob: bool) -> (Vec<Tensor>, Vec<Tensor>, Vec<usize>) {
    let mut symbolic: Vec<usize> = CHUNK_EDGES.iter().cloned().filter(|i| *i < n).collect();
    if !symbolic.contains(&(n - 1)) {
        symbolic.push(n - 1);
    }
    symbolic.sort();
    while symbolic.len() > max_symbolic {
        symbolic.remove(0);
    }
    let mut xs = Vec::new();
    let mut ts = Vec::new();
    for i in 0..n {
        if symbolic.contains(&i) {
            xs.push(t1(&v1(ctx, &format!("x{}", i), nin)));
            if onehot {
                ts.push(Tensor::one_hot(i % nout, nout));
            } else if prob {
                ts.push(t1(&(0..nout).map(|j| ctx.var_in(&format!("t{}_{}", i, j), 0.0, 1.0)).collect()));
            } else {
                ts.push(t1(&v1(ctx, &format!("t{}", i), nout)));
            }
        } else {
            xs.push(t1(&(0..nin).map(|j| lit(0.125 * ((i * 7 + j * 3) % 17) as f32 - 1.0)).collect()));
            if onehot {
                ts.push(Tensor::one_hot(i % nout, nout));
            } else if prob {
                ts.push(t1(&(0..nout).map(|j| lit(0.0625 * ((i * 5 + j) % 15 + 1) as f32)).collect()));
            } else {
                ts.push(t1(&(0..nout).map(|j| lit(0.25 * ((i * 5 + j) % 9) as f32 - 1.0)).collect()));
            }
        }
    }
    (xs, ts, symbolic)
}

/// Concrete 2x2 weights chosen so that the two logits of a constant sample never tie
/// (z0 - z1 = x0 - x1 + 3/16 with inputs on a 1/8 grid), keeping arg-max comparisons of constants unambiguous.
fn concrete_weights(net: &mut Network) {
    for layer in net.layers.iter_mut() {
        let w = t2(&vec![vec![lit(0.75), lit(-0.5)], vec![lit(-0.25), lit(0.5)]]);
        let b = t1(&vec![lit(0.125), lit(-0.0625)]);
        hooks::set_params(layer, vec![w], Some(b));
    }
}

pub fn batch_case(n: usize) -> Case {
    Case {
        id: format!("C12/predict_batch/n{}", n),
        property: "C12",
        family: "Network::{predict,predict_batch}",
        class: "predict_batch".into(),
        no_ties: false,
        max_paths: 16,
        run: Box::new(move |ctx| {
            let mut net = build_net(Shape::Single(2), &[L::Dense(2, Act::Tanh, true), L::Dense(2, Act::Linear, true)]);
            symbolize(ctx, &mut net, "");
            let (xs, _, _) = dataset(ctx, n, 2, 2, 4, false, false);
            let refs: Vec<&Tensor> = xs.iter().collect();
            let out = net.predict_batch(&refs);
            ctx.fact("count", out.len() == n, format!("{} outputs for {} inputs", out.len(), n));
            for i in 0..n.min(out.len()) {
                let p = net.predict(&xs[i]);
                let (a, b) = (elems(&out[i]), elems(&p));
                ctx.fact(&format!("shape[{}]", i), dims(&out[i]) == dims(&p), String::new());
                for j in 0..a.len().min(b.len()) {
                    ctx.claim(&format!("batch[{}][{}]", i, j), Th::Fp, B::Ident(a[j], b[j]));
                }
            }
            // predict == final activation of forward
            let (_, activated, _, _) = net.forward(&xs[0]);
            let (a, b) = (elems(&net.predict(&xs[0])), elems(activated.last().unwrap()));
            for j in 0..a.len().min(b.len()) {
                ctx.claim(&format!("predict-is-last-activation[{}]", j), Th::Fp, B::Ident(a[j], b[j]));
            }
        }),
    }
}

/// `predict` is the final activation of `forward`, and `predict_batch` / `validate` aggregate that same value, for every
/// kind of network wiring: plain, feedback block, skip connection, loop connection, both, spatial layers
pub fn wiring_case(name: &'static str, input: Shape, layers: Vec<L>, skips: Vec<(usize, usize)>, loops: Vec<(usize, usize, usize)>) -> Case {
    Case {
        id: format!("C12/predict-is-forward/{}", name),
        property: "C12",
        family: "Network::{predict,predict_batch}",
        class: "predict-is-forward".into(),
        no_ties: false,
        max_paths: 64,
        run: Box::new(move |ctx| {
            let mut net = build_net(input.clone(), &layers);
            symbolize(ctx, &mut net, "");
            for (i, l) in net.layers.iter_mut().enumerate() {
                if let L::Feedback(b, _, _, _, _) = &layers[i] {
                    symbolize_feedback(ctx, l, b.len(), &format!("L{}", i));
                }
            }
            for (a, b) in skips.iter() {
                net.connect(*a, *b);
            }
            for (outof, into, k) in loops.iter() {
                net.loopback(*outof, *into, *k, std::sync::Arc::new(|x| lit(1.0) / x), false);
            }
            let xs: Vec<Tensor> = (0..2).map(|i| input_tensor(ctx, &input, &format!("x{}", i))).collect();
            let refs: Vec<&Tensor> = xs.iter().collect();
            let batch = net.predict_batch(&refs);
            ctx.fact("count", batch.len() == 2, format!("{}", batch.len()));
            let mut losses = Vec::new();
            let nout = {
                let (_, activated, _, _) = net.forward(&xs[0]);
                elems(activated.last().unwrap()).len()
            };
            let ts: Vec<Tensor> = (0..2).map(|i| t1(&v1(ctx, &format!("t{}", i), nout))).collect();
            for i in 0..2 {
                let (_, activated, _, _) = net.forward(&xs[i]);
                let last = activated.last().unwrap().clone();
                let p = net.predict(&xs[i]);
                let (a, b) = (elems(&p), elems(&last));
                ctx.fact(&format!("shape[{}]", i), dims(&p) == dims(&last), format!("{:?} vs {:?}", dims(&p), dims(&last)));
                for j in 0..a.len().min(b.len()) {
                    ctx.claim(&format!("predict-is-last-activation[{}][{}]", i, j), Th::Fp, B::Ident(a[j], b[j]));
                }
                if i < batch.len() {
                    let c = elems(&batch[i]);
                    for j in 0..c.len().min(b.len()) {
                        ctx.claim(&format!("batch-is-last-activation[{}][{}]", i, j), Th::Fp, B::Ident(c[j], b[j]));
                    }
                }
                // the loss validate reports is the loss of the forward output
                losses.push(net.verif_loss(&rewrap(&ts[i], &b), &ts[i]).0);
            }
            let tr: Vec<&Tensor> = ts.iter().collect();
            let (loss, _) = net.validate(&refs, &tr, lit(0.5));
            ctx.eq("validate-loss-is-loss-of-forward-output", loss, sum(&losses) / lit(2.0));
        }),
    }
}

pub fn validate_case(n: usize, obj: Obj, out_act: Act, symbolic_weights: bool) -> Case {
    Case {
        id: format!("C12/validate/n{}/{}/{}/{}", n, obj.name(), out_act.name(), if symbolic_weights { "symbolic-weights" } else { "concrete-weights" }),
        property: "C12",
        family: "Network::validate",
        class: format!("validate-{}", if out_act == Act::Softmax { "softmax" } else { "tolerance" }),
        no_ties: out_act == Act::Softmax,
        max_paths: 4096,
        run: Box::new(move |ctx| {
            let nout = 2;
            let mut net = build_net(Shape::Single(2), &[L::Dense(nout, out_act, true)]);
            if symbolic_weights {
                symbolize(ctx, &mut net, "");
            } else {
                concrete_weights(&mut net);
            }
            net.set_objective(obj.lib(), None);
            let softmax = out_act == Act::Softmax;
            let maxsym = if symbolic_weights { n } else { 2 };
            let (xs, ts, _) = dataset(ctx, n, 2, nout, maxsym, softmax, obj.probabilistic() && !softmax);
            let (xr, tr): (Vec<&Tensor>, Vec<&Tensor>) = (xs.iter().collect(), ts.iter().collect());
            let tol = if symbolic_weights { ctx.var("tol") } else { lit(0.5) };
            let (loss, acc) = net.validate(&xr, &tr, tol);
            // oracle: arithmetic means over the samples of the per-sample loss / accuracy of `predict`
            let mut losses = Vec::new();
            let mut accs = Vec::new();
            for i in 0..n {
                let p = net.predict(&xs[i]);
                let (l, _) = net.verif_loss(&p, &ts[i]);
                losses.push(l);
                let (pv, tv) = (elems(&p), elems(&ts[i]));
                if softmax {
                    // arg-max agreement (targets are one-hot constants; no ties assumed)
                    let it = i % nout;
                    let mut a = lit(1.0);
                    for j in 0..nout {
                        if j != it {
                            a = a * ite_lt(pv[j], pv[it], lit(1.0), lit(0.0));
                        }
                    }
                    accs.push(a);
                } else {
                    let within: V1 = (0..nout).map(|j| ite_lt((tv[j] - pv[j]).abs(), tol, lit(1.0), lit(0.0))).collect();
                    accs.push(rsum(&within) / lit(nout as f32));
                }
            }
            ctx.eq("loss", loss, sum(&losses) / lit(n as f32));
            ctx.eq("accuracy", acc, sum(&accs) / lit(n as f32));
        }),
    }
}

/// The accuracy rule in Float32: a component scores iff `|target - prediction| < tolerance` evaluated in single precision —
/// for every tolerance and every magnitude of the target (a reformulation such as `t - tol <= p < t + tol` absorbs the
/// tolerance for large targets). Identity weights, so the prediction is the (symbolic) input itself.
pub fn accuracy_float_case(nout: usize) -> Case {
    Case {
        id: format!("C12/accuracy-rule-in-floats/{}out", nout),
        property: "C12",
        family: "Network::validate",
        class: "validate-tolerance".into(),
        no_ties: false,
        max_paths: 64,
        run: Box::new(move |ctx| {
            let mut net = build_net(Shape::Single(nout), &[L::Dense(nout, Act::Linear, false)]);
            let w: V2 = (0..nout).map(|i| (0..nout).map(|j| lit(if i == j { 1.0 } else { 0.0 })).collect()).collect();
            hooks::set_params(&mut net.layers[0], vec![t2(&w)], None);
            ctx.fp_bound = Some(1.0e30);
            let x = v1(ctx, "x", nout);
            let t = v1(ctx, "t", nout);
            let tol = ctx.var("tol");
            ctx.assume(B::Lt(lit(0.0), tol));
            let p = elems(&net.predict(&t1(&x)));
            let (xs, ts) = (vec![t1(&x)], vec![t1(&t)]);
            let (xr, tr): (Vec<&Tensor>, Vec<&Tensor>) = (xs.iter().collect(), ts.iter().collect());
            let (_, acc) = net.validate(&xr, &tr, tol);
            let within: V1 = (0..nout).map(|j| ite_lt((t[j] - p[j]).abs(), tol, lit(1.0), lit(0.0))).collect();
            let want = if nout == 1 { within[0] } else { rsum(&within) / lit(nout as f32) };
            ctx.claim("accuracy", Th::Fp, B::Eq(acc, want));
        }),
    }
}

/// soft-max output: a sample scores iff the arg-max of the prediction is the arg-max of the target — for arbitrary target
/// vectors (all negative, mixed signs, ...), not only one-hot ones; no ties
pub fn softmax_targets_case(n: usize, nout: usize) -> Case {
    Case {
        id: format!("C12/validate/n{}/softmax-symbolic-targets/{}out", n, nout),
        property: "C12",
        family: "Network::validate",
        class: "validate-softmax".into(),
        no_ties: true,
        max_paths: 4096,
        run: Box::new(move |ctx| {
            let mut net = build_net(Shape::Single(2), &[L::Dense(nout, Act::Softmax, true)]);
            symbolize(ctx, &mut net, "");
            net.set_objective(Objective::CrossEntropy, None);
            let xs: Vec<Tensor> = (0..n).map(|i| t1(&v1(ctx, &format!("x{}", i), 2))).collect();
            let ts: Vec<V1> = (0..n).map(|i| v1(ctx, &format!("t{}", i), nout)).collect();
            let tt: Vec<Tensor> = ts.iter().map(|t| t1(t)).collect();
            let (xr, tr): (Vec<&Tensor>, Vec<&Tensor>) = (xs.iter().collect(), tt.iter().collect());
            let (_, acc) = net.validate(&xr, &tr, lit(0.5));
            let mut accs = Vec::new();
            for i in 0..n {
                let pv = elems(&net.predict(&xs[i]));
                // 1 iff some index is the strict maximum of both vectors
                let mut hit = lit(0.0);
                for j in 0..nout {
                    let mut both = lit(1.0);
                    for l in 0..nout {
                        if l != j {
                            both = both * ite_lt(pv[l], pv[j], lit(1.0), lit(0.0)) * ite_lt(ts[i][l], ts[i][j], lit(1.0), lit(0.0));
                        }
                    }
                    hit = hit + both;
                }
                accs.push(hit);
            }
            ctx.eq("accuracy", acc, sum(&accs) / lit(n as f32));
        }),
    }
}

/// soft-max output, ties allowed: a sample scores iff `Tensor::argmax` (the library's own arg-max, whatever its tie rule)
/// of the prediction equals that of the target. Bias-free layer: the zero input ties all outputs exactly.
pub fn softmax_ties_case(nout: usize) -> Case {
    Case {
        id: format!("C12/validate/softmax-with-ties/{}out", nout),
        property: "C12",
        family: "Network::validate",
        class: "validate-softmax".into(),
        no_ties: false,
        max_paths: 4096,
        run: Box::new(move |ctx| {
            let mut net = build_net(Shape::Single(1), &[L::Dense(nout, Act::Softmax, false)]);
            symbolize(ctx, &mut net, "");
            net.set_objective(Objective::CrossEntropy, None);
            let n = nout;
            let xs: Vec<Tensor> = (0..n).map(|i| t1(&v1(ctx, &format!("x{}", i), 1))).collect();
            let tt: Vec<Tensor> = (0..n).map(|i| Tensor::one_hot(i % nout, nout)).collect();
            let (xr, tr): (Vec<&Tensor>, Vec<&Tensor>) = (xs.iter().collect(), tt.iter().collect());
            let (_, acc) = net.validate(&xr, &tr, lit(0.5));
            let mut hits = 0usize;
            for i in 0..n {
                let p = net.predict(&xs[i]);
                if t1(&elems(&p)).argmax() == tt[i].argmax() {
                    hits += 1;
                }
            }
            ctx.eq("accuracy", acc, lit(hits as f32) / lit(n as f32));
        }),
    }
}

/// single-output networks use the `target.len() == 1` branch of the accuracy rule
pub fn validate_single_output_case(n: usize) -> Case {
    Case {
        id: format!("C12/validate/n{}/single-output", n),
        property: "C12",
        family: "Network::validate",
        class: "validate-tolerance".into(),
        no_ties: false,
        max_paths: 4096,
        run: Box::new(move |ctx| {
            let mut net = build_net(Shape::Single(2), &[L::Dense(1, Act::Linear, true)]);
            symbolize(ctx, &mut net, "");
            let (xs, ts, _) = dataset(ctx, n, 2, 1, n, false, false);
            let (xr, tr): (Vec<&Tensor>, Vec<&Tensor>) = (xs.iter().collect(), ts.iter().collect());
            let tol = ctx.var("tol");
            let (loss, acc) = net.validate(&xr, &tr, tol);
            let mut losses = Vec::new();
            let mut accs = Vec::new();
            for i in 0..n {
                let p = net.predict(&xs[i]);
                losses.push(net.verif_loss(&p, &ts[i]).0);
                accs.push(ite_lt((elems(&p)[0] - elems(&ts[i])[0]).abs(), tol, lit(1.0), lit(0.0)));
            }
            ctx.eq("loss", loss, sum(&losses) / lit(n as f32));
            ctx.eq("accuracy", acc, sum(&accs) / lit(n as f32));
        }),
    }
}

/// Negative control: the loss oracle is the sum, not the mean.
pub fn control_case() -> Case {
    Case {
        id: "C12/control/loss-sum-instead-of-mean".into(),
        property: "C12",
        family: "control",
        class: "control".into(),
        no_ties: false,
        max_paths: 64,
        run: Box::new(move |ctx| {
            let mut net = build_net(Shape::Single(2), &[L::Dense(1, Act::Linear, true)]);
            symbolize(ctx, &mut net, "");
            let (xs, ts, _) = dataset(ctx, 2, 2, 1, 2, false, false);
            let (xr, tr): (Vec<&Tensor>, Vec<&Tensor>) = (xs.iter().collect(), ts.iter().collect());
            let (loss, _) = net.validate(&xr, &tr, lit(0.5));
            let l: V1 = (0..2).map(|i| net.verif_loss(&net.predict(&xs[i]), &ts[i]).0).collect();
            ctx.eq("loss", loss, sum(&l));
        }),
    }
}

pub fn cases(tier: Tier, _seed: u64) -> Vec<Case> {
    let full = tier == Tier::Thorough;
    let mut out = Vec::new();
    for n in [1usize, 63, 64, 65, 129] {
        out.push(batch_case(n));
    }
    if full {
        out.push(batch_case(130));
        out.push(batch_case(2));
    }
    // small data sets, everything symbolic, every objective
    for obj in Obj::all() {
        let act = if obj.probabilistic() { Act::Sigmoid } else { Act::Linear };
        let forks = matches!(obj, Obj::AE | Obj::MAE | Obj::RMSE);
        out.push(validate_case(if full && !forks { 3 } else { 2 }, obj, act, true));
    }
    out.push(validate_case(2, Obj::CrossEntropy, Act::Softmax, true));
    out.push(validate_single_output_case(2));
    out.push(softmax_ties_case(2));
    if full {
        out.push(softmax_ties_case(3));
    }
    out.push(softmax_targets_case(1, 2));
    out.push(softmax_targets_case(if full { 2 } else { 1 }, 3));
    out.push(accuracy_float_case(1));
    out.push(accuracy_float_case(2));
    // sizes around the parallel chunk size (concrete weights, boundary samples symbolic)
    for n in [1usize, 63, 64, 65, 129] {
        out.push(validate_case(n, Obj::MSE, Act::Linear, false));
        if full || n == 65 {
            out.push(validate_case(n, Obj::CrossEntropy, Act::Softmax, false));
            out.push(validate_case(n, Obj::BinaryCrossEntropy, Act::Sigmoid, false));
        }
    }
    // predict / predict_batch / validate against `forward` itself for every wiring
    use Act::*;
    let d = |n: usize, a: Act| L::Dense(n, a, true);
    out.push(wiring_case("plain", Shape::Single(2), vec![d(2, Tanh), d(2, Linear)], vec![], vec![]));
    out.push(wiring_case("feedback-block", Shape::Single(2), vec![L::Feedback(vec![d(2, Tanh), d(2, Linear)], 2, false, false, Acc::Mean), d(1, Linear)], vec![], vec![]));
    out.push(wiring_case("skip", Shape::Single(2), vec![d(2, Tanh), d(2, Linear), d(2, Linear)], vec![(1, 2)], vec![]));
    out.push(wiring_case("loopback", Shape::Single(2), vec![d(2, Tanh), d(2, Linear), d(1, Linear)], vec![], vec![(1, 0, 1)]));
    out.push(wiring_case("skip+loopback", Shape::Single(2), vec![d(2, Tanh), d(2, Linear), d(2, Linear)], vec![(1, 2)], vec![(1, 1, 1)]));
    out.push(wiring_case("conv-pool-dense", Shape::Triple(1, 3, 3), vec![L::Conv(1, (2, 2), (1, 1), (0, 0), (1, 1), Tanh), L::Pool((1, 1), (1, 1)), d(2, Linear)], vec![], vec![]));
    if full {
        out.push(wiring_case("loopback-two-passes", Shape::Single(2), vec![d(2, Linear), d(2, Tanh), d(1, Linear)], vec![], vec![(1, 0, 2)]));
        out.push(wiring_case("two-loopbacks", Shape::Single(2), vec![d(2, Linear), d(2, Tanh), d(2, Linear)], vec![], vec![(0, 0, 1), (2, 1, 1)]));
        out.push(wiring_case("deconv-dense", Shape::Triple(1, 2, 2), vec![L::Deconv(1, (2, 2), (1, 1), (0, 0), Linear), d(2, Tanh)], vec![], vec![]));
    }
    out.push(control_case());
    out
}
