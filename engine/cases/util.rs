//! Helpers shared by the cases: symbolic tensors, reference operators, configuration lattices.

use super::*;

pub type V1 = Vec<S>;
pub type V2 = Vec<Vec<S>>;
pub type V3 = Vec<Vec<Vec<S>>>;
pub type V4 = Vec<Vec<Vec<Vec<S>>>>;

pub fn v1(ctx: &mut Ctx, p: &str, n: usize) -> V1 {
    (0..n).map(|i| ctx.var(&format!("{}_{}", p, i))).collect()
}
pub fn v2(ctx: &mut Ctx, p: &str, r: usize, c: usize) -> V2 {
    (0..r).map(|i| v1(ctx, &format!("{}_{}", p, i), c)).collect()
}
pub fn v3(ctx: &mut Ctx, p: &str, c: usize, h: usize, w: usize) -> V3 {
    (0..c).map(|i| v2(ctx, &format!("{}_{}", p, i), h, w)).collect()
}
pub fn v4(ctx: &mut Ctx, p: &str, f: usize, c: usize, h: usize, w: usize) -> V4 {
    (0..f).map(|i| v3(ctx, &format!("{}_{}", p, i), c, h, w)).collect()
}

pub fn flat3(x: &V3) -> V1 {
    x.iter().flat_map(|c| c.iter().flat_map(|r| r.iter().cloned())).collect()
}
pub fn flat2(x: &V2) -> V1 {
    x.iter().flat_map(|r| r.iter().cloned()).collect()
}
pub fn flat4(x: &V4) -> V1 {
    x.iter().flat_map(|f| flat3(f)).collect()
}

pub fn t1(x: &V1) -> Tensor {
    Tensor::single(x.clone())
}
pub fn t2(x: &V2) -> Tensor {
    Tensor::double(x.clone())
}
pub fn t3(x: &V3) -> Tensor {
    Tensor::triple(x.clone())
}

pub fn d1(t: &Tensor) -> V1 {
    match &t.data {
        Data::Single(d) => d.clone(),
        _ => panic!("harness: expected a 1-D tensor, got {:?}", t.shape),
    }
}
pub fn d2(t: &Tensor) -> V2 {
    match &t.data {
        Data::Double(d) => d.clone(),
        _ => panic!("harness: expected a 2-D tensor, got {:?}", t.shape),
    }
}
pub fn d3(t: &Tensor) -> V3 {
    match &t.data {
        Data::Triple(d) => d.clone(),
        _ => panic!("harness: expected a 3-D tensor, got {:?}", t.shape),
    }
}
pub fn d4(t: &Tensor) -> V4 {
    match &t.data {
        Data::Quadruple(d) => d.clone(),
        _ => panic!("harness: expected a 4-D tensor, got {:?}", t.shape),
    }
}
/// All elements of a (possibly nested) float tensor in storage order.
pub fn elems(t: &Tensor) -> V1 {
    match &t.data {
        Data::Single(d) => d.clone(),
        Data::Double(d) => flat2(d),
        Data::Triple(d) => flat3(d),
        Data::Quadruple(d) => flat4(d),
        Data::Nested(ts) => ts.iter().flat_map(|t| elems(t)).collect(),
        Data::NestedOptional(ts) => ts.iter().flat_map(|t| t.as_ref().map(elems).unwrap_or_default()).collect(),
        Data::Quintuple(_) => Vec::new(),
    }
}
/// Actual nesting lengths of the data (independent of the recorded `shape`).
pub fn dims(t: &Tensor) -> Vec<usize> {
    match &t.data {
        Data::Single(d) => vec![d.len()],
        Data::Double(d) => vec![d.len(), d.first().map(|r| r.len()).unwrap_or(0)],
        Data::Triple(d) => vec![
            d.len(),
            d.first().map(|r| r.len()).unwrap_or(0),
            d.first().and_then(|r| r.first()).map(|r| r.len()).unwrap_or(0),
        ],
        Data::Quadruple(d) => vec![
            d.len(),
            d.first().map(|r| r.len()).unwrap_or(0),
            d.first().and_then(|r| r.first()).map(|r| r.len()).unwrap_or(0),
            d.first().and_then(|r| r.first()).and_then(|r| r.first()).map(|r| r.len()).unwrap_or(0),
        ],
        Data::Nested(ts) => vec![ts.len()],
        Data::NestedOptional(ts) => vec![ts.len()],
        Data::Quintuple(d) => vec![d.len()],
    }
}
/// Is every row of the nested data of the length the first row has (rectangular data)?
pub fn rectangular(t: &Tensor) -> bool {
    match &t.data {
        Data::Double(d) => d.iter().all(|r| r.len() == d[0].len()),
        Data::Triple(d) => d.iter().all(|c| c.len() == d[0].len() && c.iter().all(|r| r.len() == d[0][0].len())),
        Data::Quadruple(d) => d.iter().all(|f| {
            f.len() == d[0].len() && f.iter().all(|c| c.len() == d[0][0].len() && c.iter().all(|r| r.len() == d[0][0][0].len()))
        }),
        _ => true,
    }
}
pub fn shape_dims(s: &Shape) -> Vec<usize> {
    match s {
        Shape::Single(a) => vec![*a],
        Shape::Double(a, b) => vec![*a, *b],
        Shape::Triple(a, b, c) => vec![*a, *b, *c],
        Shape::Quadruple(a, b, c, d) => vec![*a, *b, *c, *d],
        Shape::Quintuple(a, b, c, d, e) => vec![*a, *b, *c, *d, *e],
        Shape::Nested(a) => vec![*a],
    }
}
pub fn shape_count(s: &Shape) -> usize {
    shape_dims(s).iter().product()
}

pub fn sum(xs: &[S]) -> S {
    let mut s = lit(0.0);
    for x in xs {
        s = s + *x;
    }
    s
}
/// sum in reverse order (a *different* association than the library uses)
pub fn rsum(xs: &[S]) -> S {
    let mut s = lit(0.0);
    for x in xs.iter().rev() {
        s = *x + s;
    }
    s
}

/// Copyable mirror of `neurons::activation::Activation`.
#[derive(Clone, Copy, Debug, PartialEq, Eq)]
pub enum Act {
    ReLU,
    LeakyReLU,
    Sigmoid,
    Softmax,
    Tanh,
    Linear,
}
impl Act {
    pub fn lib(self) -> Activation {
        match self {
            Act::ReLU => Activation::ReLU,
            Act::LeakyReLU => Activation::LeakyReLU,
            Act::Sigmoid => Activation::Sigmoid,
            Act::Softmax => Activation::Softmax,
            Act::Tanh => Activation::Tanh,
            Act::Linear => Activation::Linear,
        }
    }
    pub fn name(self) -> &'static str {
        match self {
            Act::ReLU => "relu",
            Act::LeakyReLU => "leaky",
            Act::Sigmoid => "sigmoid",
            Act::Softmax => "softmax",
            Act::Tanh => "tanh",
            Act::Linear => "linear",
        }
    }
    pub fn forks(self) -> bool {
        matches!(self, Act::LeakyReLU | Act::ReLU)
    }
    pub fn elementwise() -> Vec<Act> {
        vec![Act::Linear, Act::ReLU, Act::LeakyReLU, Act::Sigmoid, Act::Tanh]
    }
}
/// Copyable mirror of `neurons::objective::Objective`.
#[derive(Clone, Copy, Debug, PartialEq, Eq)]
pub enum Obj {
    AE,
    MAE,
    MSE,
    RMSE,
    CrossEntropy,
    BinaryCrossEntropy,
    KLDivergence,
}
impl Obj {
    pub fn lib(self) -> Objective {
        match self {
            Obj::AE => Objective::AE,
            Obj::MAE => Objective::MAE,
            Obj::MSE => Objective::MSE,
            Obj::RMSE => Objective::RMSE,
            Obj::CrossEntropy => Objective::CrossEntropy,
            Obj::BinaryCrossEntropy => Objective::BinaryCrossEntropy,
            Obj::KLDivergence => Objective::KLDivergence,
        }
    }
    pub fn name(self) -> &'static str {
        match self {
            Obj::AE => "ae",
            Obj::MAE => "mae",
            Obj::MSE => "mse",
            Obj::RMSE => "rmse",
            Obj::CrossEntropy => "ce",
            Obj::BinaryCrossEntropy => "bce",
            Obj::KLDivergence => "kl",
        }
    }
    /// objectives whose domain is probabilities in [0, 1]
    pub fn probabilistic(self) -> bool {
        matches!(self, Obj::CrossEntropy | Obj::BinaryCrossEntropy | Obj::KLDivergence)
    }
    pub fn all() -> Vec<Obj> {
        vec![Obj::AE, Obj::MAE, Obj::MSE, Obj::RMSE, Obj::CrossEntropy, Obj::BinaryCrossEntropy, Obj::KLDivergence]
    }
}

/// Copyable mirror of `neurons::feedback::Accumulation`.
#[derive(Clone, Copy, Debug, PartialEq, Eq)]
pub enum Acc {
    Add,
    Subtract,
    Multiply,
    Overwrite,
    Mean,
}
impl Acc {
    pub fn lib(self) -> Accumulation {
        match self {
            Acc::Add => Accumulation::Add,
            Acc::Subtract => Accumulation::Subtract,
            Acc::Multiply => Accumulation::Multiply,
            Acc::Overwrite => Accumulation::Overwrite,
            Acc::Mean => Accumulation::Mean,
        }
    }
    pub fn name(self) -> &'static str {
        match self {
            Acc::Add => "add",
            Acc::Subtract => "sub",
            Acc::Multiply => "mul",
            Acc::Overwrite => "overwrite",
            Acc::Mean => "mean",
        }
    }
    pub fn all() -> Vec<Acc> {
        vec![Acc::Add, Acc::Subtract, Acc::Multiply, Acc::Overwrite, Acc::Mean]
    }
    /// combine `a` with `others` element-wise as documented
    pub fn combine(self, a: &[S], others: &[Vec<S>]) -> Vec<S> {
        (0..a.len())
            .map(|i| match self {
                Acc::Add => others.iter().fold(a[i], |s, o| s + o[i]),
                Acc::Subtract => others.iter().fold(a[i], |s, o| s - o[i]),
                Acc::Multiply => others.iter().fold(a[i], |s, o| s * o[i]),
                Acc::Overwrite => others.last().unwrap()[i],
                Acc::Mean => others.iter().rev().fold(a[i], |s, o| o[i] + s) / lit((others.len() + 1) as f32),
            })
            .collect()
    }
}

/// Defining expression of an element-wise activation (written from the documentation).
pub fn act_ref(a: Act, x: S) -> S {
    match a {
        Act::ReLU => lit(0.0).max(x),
        Act::LeakyReLU => ite_lt(lit(0.0), x, x, lit(0.01) * x),
        Act::Sigmoid => lit(1.0) / (lit(1.0) + (-x).exp()),
        Act::Tanh => x.tanh(),
        Act::Linear => x,
        Act::Softmax => panic!("softmax is not element-wise"),
    }
}
/// Derivative of the defining expression, in the closed form the documentation gives.
pub fn act_dref(a: Act, x: S) -> S {
    match a {
        Act::ReLU => ite_lt(lit(0.0), x, lit(1.0), lit(0.0)),
        Act::LeakyReLU => ite_lt(lit(0.0), x, lit(1.0), lit(0.01)),
        Act::Sigmoid => {
            let y = lit(1.0) / (lit(1.0) + (-x).exp());
            y * (lit(1.0) - y)
        }
        Act::Tanh => {
            let c = x.cosh();
            lit(1.0) / (c * c)
        }
        Act::Linear => lit(1.0),
        Act::Softmax => panic!("softmax is not element-wise"),
    }
}
pub fn softmax_ref(x: &[S]) -> V1 {
    let mut m = x[0];
    for v in x.iter().skip(1) {
        m = m.max(*v);
    }
    let e: V1 = x.iter().map(|v| (*v - m).exp()).collect();
    let s = rsum(&e);
    e.iter().map(|v| *v / s).collect()
}

// ------------------------------------------------------------------------------------------------
// convolution-like configurations

#[derive(Clone, Debug)]
pub struct Cfg {
    pub ic: usize,
    pub ih: usize,
    pub iw: usize,
    pub f: usize,
    pub k: (usize, usize),
    pub s: (usize, usize),
    pub p: (usize, usize),
    pub d: (usize, usize),
}

impl Cfg {
    pub fn tag(&self) -> String {
        format!(
            "i{}x{}x{}_f{}_k{}x{}_s{}x{}_p{}x{}_d{}x{}",
            self.ic, self.ih, self.iw, self.f, self.k.0, self.k.1, self.s.0, self.s.1, self.p.0, self.p.1, self.d.0, self.d.1
        )
    }
    /// standard convolution output size (None if the effective kernel does not fit)
    pub fn conv_out(&self) -> Option<(usize, usize)> {
        let eh = self.d.0 * (self.k.0 - 1) + 1;
        let ew = self.d.1 * (self.k.1 - 1) + 1;
        if self.ih + 2 * self.p.0 < eh || self.iw + 2 * self.p.1 < ew {
            return None;
        }
        Some(((self.ih + 2 * self.p.0 - eh) / self.s.0 + 1, (self.iw + 2 * self.p.1 - ew) / self.s.1 + 1))
    }
    /// transposed-convolution output size (None if the padding crops everything)
    pub fn deconv_out(&self) -> Option<(usize, usize)> {
        let h = (self.ih - 1) * self.s.0 + self.k.0;
        let w = (self.iw - 1) * self.s.1 + self.k.1;
        if h <= 2 * self.p.0 || w <= 2 * self.p.1 {
            return None;
        }
        Some((h - 2 * self.p.0, w - 2 * self.p.1))
    }
    pub fn pool_out(&self) -> Option<(usize, usize)> {
        if self.ih < self.k.0 || self.iw < self.k.1 {
            return None;
        }
        Some(((self.ih - self.k.0) / self.s.0 + 1, (self.iw - self.k.1) / self.s.1 + 1))
    }
    /// configuration classes (used for subset selection and for keying findings)
    pub fn classes(&self) -> Vec<&'static str> {
        let mut c = Vec::new();
        if self.s.0 > 1 || self.s.1 > 1 {
            c.push("stride>1");
        }
        if self.d.0 > 1 || self.d.1 > 1 {
            c.push("dilation>1");
        }
        if self.p.0 > 0 || self.p.1 > 0 {
            c.push("padding>0");
        }
        if self.k.0 != self.k.1 {
            c.push("rect-kernel");
        }
        if self.s.0 != self.s.1 {
            c.push("asym-stride");
        }
        if self.ih != self.iw {
            c.push("rect-input");
        }
        if self.ic > 1 {
            c.push("multi-channel");
        }
        if self.f > 1 {
            c.push("multi-filter");
        }
        if c.is_empty() {
            c.push("plain");
        }
        c
    }
    /// the class string used in finding keys: stride/dilation part only (what the known defects depend on)
    pub fn sd_class(&self) -> String {
        let s = self.s.0 > 1 || self.s.1 > 1;
        let d = self.d.0 > 1 || self.d.1 > 1;
        let base = match (s, d) {
            (false, false) => "stride=1,dilation=1",
            (true, false) => "stride>1,dilation=1",
            (false, true) => "stride=1,dilation>1",
            (true, true) => "stride>1,dilation>1",
        };
        // padding beyond the "full convolution" padding kernel-1 is a class of its own
        if self.p.0 > self.d.0 * (self.k.0 - 1) || self.p.1 > self.d.1 * (self.k.1 - 1) {
            format!("{},pad>k-1", base)
        } else {
            base.to_string()
        }
    }
}

/// Reference zero-padded strided dilated cross-correlation (loop order w,h,c — not the library's).
pub fn conv_ref(cfg: &Cfg, x: &V3, ks: &V4) -> V3 {
    let (oh, ow) = cfg.conv_out().unwrap();
    let mut y = vec![vec![vec![lit(0.0); ow]; oh]; cfg.f];
    for ff in 0..cfg.f {
        for a in 0..oh {
            for b in 0..ow {
                let mut sum = lit(0.0);
                for w in (0..cfg.k.1).rev() {
                    for h in (0..cfg.k.0).rev() {
                        for c in (0..cfg.ic).rev() {
                            let hh = a * cfg.s.0 + h * cfg.d.0;
                            let ww = b * cfg.s.1 + w * cfg.d.1;
                            if hh >= cfg.p.0 && ww >= cfg.p.1 && hh - cfg.p.0 < cfg.ih && ww - cfg.p.1 < cfg.iw {
                                sum = sum + x[c][hh - cfg.p.0][ww - cfg.p.1] * ks[ff][c][h][w];
                            }
                        }
                    }
                }
                y[ff][a][b] = sum;
            }
        }
    }
    y
}

/// Reference transposed convolution cropped by the padding, in *gather* form.
pub fn deconv_ref(cfg: &Cfg, x: &V3, ks: &V4) -> V3 {
    let (oh, ow) = cfg.deconv_out().unwrap();
    let mut y = vec![vec![vec![lit(0.0); ow]; oh]; cfg.f];
    for ff in 0..cfg.f {
        for a in 0..oh {
            for b in 0..ow {
                let mut sum = lit(0.0);
                for c in (0..cfg.ic).rev() {
                    for i in 0..cfg.ih {
                        for j in 0..cfg.iw {
                            let ka = (a + cfg.p.0) as isize - (i * cfg.s.0) as isize;
                            let kb = (b + cfg.p.1) as isize - (j * cfg.s.1) as isize;
                            if ka >= 0 && kb >= 0 && (ka as usize) < cfg.k.0 && (kb as usize) < cfg.k.1 {
                                sum = sum + x[c][i][j] * ks[ff][c][ka as usize][kb as usize];
                            }
                        }
                    }
                }
                y[ff][a][b] = sum;
            }
        }
    }
    y
}

/// Reference max-pool: maximum of each window (a `max` chain, no control flow).
pub fn pool_ref(cfg: &Cfg, x: &V3) -> V3 {
    let (oh, ow) = cfg.pool_out().unwrap();
    let mut y = vec![vec![vec![lit(0.0); ow]; oh]; cfg.ic];
    for c in 0..cfg.ic {
        for a in 0..oh {
            for b in 0..ow {
                let mut m: Option<S> = None;
                for l in (0..cfg.k.1).rev() {
                    for k in (0..cfg.k.0).rev() {
                        let v = x[c][a * cfg.s.0 + k][b * cfg.s.1 + l];
                        m = Some(match m {
                            None => v,
                            Some(m) => m.max(v),
                        });
                    }
                }
                y[c][a][b] = m.unwrap();
            }
        }
    }
    y
}

/// The configuration lattice L of DESIGN §5, restricted to configurations whose effective kernel fits.
pub fn conv_lattice(full: bool) -> Vec<Cfg> {
    let mut out = Vec::new();
    let ks: &[usize] = if full { &[1, 2, 3] } else { &[1, 2, 3] };
    let ss: &[usize] = if full { &[1, 2, 3] } else { &[1, 2] };
    let ps: &[usize] = if full { &[0, 1, 2] } else { &[0, 1] };
    let ds: &[usize] = &[1, 2];
    let inputs: &[(usize, usize, usize)] = if full {
        &[(1, 3, 3), (1, 4, 4), (2, 3, 4), (1, 5, 4), (2, 4, 4), (1, 5, 5)]
    } else {
        &[(1, 3, 3), (1, 4, 4), (2, 3, 4), (1, 5, 4)]
    };
    for &(ic, ih, iw) in inputs {
        for f in 1..=2usize {
            for &kh in ks {
                for &kw in ks {
                    for &sh in ss {
                        for &sw in ss {
                            for &ph in ps {
                                for &pw in ps {
                                    for &dh in ds {
                                        for &dw in ds {
                                            let c = Cfg { ic, ih, iw, f, k: (kh, kw), s: (sh, sw), p: (ph, pw), d: (dh, dw) };
                                            if c.conv_out().is_some() {
                                                out.push(c);
                                            }
                                        }
                                    }
                                }
                            }
                        }
                    }
                }
            }
        }
    }
    out
}

/// Beyond the lattice: strides 4 and 6 against dilations 2, 3, 4 (stride and dilation sharing a factor without one
/// dividing the other, coprime pairs, multiples) along one axis with a 3-wide kernel; one-channel, one-row inputs just long
/// enough for three output cells.
pub fn extended_lattice() -> Vec<Cfg> {
    let mut out = Vec::new();
    for &s in &[4usize, 6, 5] {
        for &d in &[2usize, 3, 4] {
            for axis in 0..2 {
                for &p in &[0usize, 1] {
                    let eff = d * 2 + 1;
                    let len = eff + 2 * s - 2 * p.min(1);
                    let c = if axis == 0 {
                        Cfg { ic: 1, ih: len, iw: 1, f: 1, k: (3, 1), s: (s, 1), p: (p, 0), d: (d, 1) }
                    } else {
                        Cfg { ic: 1, ih: 1, iw: len, f: 1, k: (1, 3), s: (1, s), p: (0, p), d: (1, d) }
                    };
                    if c.conv_out().is_some() {
                        out.push(c);
                    }
                }
            }
        }
    }
    out
}

/// Seeded subset of `n` configurations that contains a representative of every class.
pub fn pick(cfgs: Vec<Cfg>, n: usize, seed: u64, size_cap: usize, size_of: &dyn Fn(&Cfg) -> usize) -> Vec<Cfg> {
    let mut cands: Vec<(u64, Cfg)> = cfgs
        .into_iter()
        .filter(|c| size_of(c) <= size_cap)
        .map(|c| (mix(hash_str(&c.tag()) ^ mix(seed)), c))
        .collect();
    cands.sort_by_key(|(h, _)| *h);
    let classes = ["plain", "stride>1", "dilation>1", "padding>0", "rect-kernel", "asym-stride", "rect-input", "multi-channel", "multi-filter"];
    let mut chosen: Vec<Cfg> = Vec::new();
    let mut tags = std::collections::HashSet::new();
    for cl in classes.iter() {
        if let Some((_, c)) = cands.iter().find(|(_, c)| c.classes().contains(cl)) {
            if tags.insert(c.tag()) {
                chosen.push(c.clone());
            }
        }
    }
    for (_, c) in cands.iter() {
        if chosen.len() >= n {
            break;
        }
        if tags.insert(c.tag()) {
            chosen.push(c.clone());
        }
    }
    chosen
}
