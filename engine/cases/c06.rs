//! C06 — objective functions return the documented loss and gradient.

use super::*;
use neurons::objective::Function;

const EPS: f32 = 1e-6;

fn clampp(p: S) -> S {
    // predicted.clamp(eps, 1 - eps) as a max/min chain
    p.max(lit(EPS)).min(lit(1.0) - lit(EPS))
}

/// documented loss
fn loss_ref(o: Obj, p: &[S], t: &[S]) -> S {
    let n = lit(p.len() as f32);
    match o {
        Obj::AE => rsum(&p.iter().zip(t).map(|(p, t)| (*t - *p).abs()).collect::<V1>()),
        Obj::MAE => rsum(&p.iter().zip(t).map(|(p, t)| (*t - *p).abs()).collect::<V1>()) / n,
        Obj::MSE => rsum(&p.iter().zip(t).map(|(p, t)| (*t - *p) * (*t - *p)).collect::<V1>()) / n,
        Obj::RMSE => (rsum(&p.iter().zip(t).map(|(p, t)| (*t - *p) * (*t - *p)).collect::<V1>()) / n).sqrt(),
        Obj::CrossEntropy => -rsum(&p.iter().zip(t).map(|(p, t)| *t * clampp(*p).ln()).collect::<V1>()),
        Obj::BinaryCrossEntropy => -rsum(&p.iter().zip(t).map(|(p, t)| *t * clampp(*p).ln() + (lit(1.0) - *t) * (lit(1.0) - clampp(*p)).ln()).collect::<V1>()),
        Obj::KLDivergence => rsum(&p.iter().zip(t).map(|(p, t)| *t * (*t / clampp(*p)).ln()).collect::<V1>()),
    }
}

/// documented per-element gradient
fn grad_ref(o: Obj, p: S, t: S, n: usize) -> S {
    let nn = lit(n as f32);
    let sign = ite_lt(p, t, lit(-1.0), ite_lt(t, p, lit(1.0), lit(0.0)));
    match o {
        Obj::AE | Obj::MAE => sign,
        Obj::MSE => lit(-2.0) * (t - p) / nn,
        // -(actual - predicted) / (sqrt((actual - predicted)^2) * n), 0 where actual == predicted
        Obj::RMSE => sign / nn,
        Obj::CrossEntropy => p - t,
        Obj::BinaryCrossEntropy => (clampp(p) - t) / (clampp(p) * (lit(1.0) - clampp(p))),
        Obj::KLDivergence => -t / clampp(p),
    }
}

#[derive(Clone, Copy, Debug, PartialEq)]
pub enum Sh {
    Flat(usize),
    T(usize, usize, usize),
}

impl Sh {
    fn tag(&self) -> String {
        match self {
            Sh::Flat(n) => format!("flat{}", n),
            Sh::T(a, b, c) => format!("{}x{}x{}", a, b, c),
        }
    }
    fn count(&self) -> usize {
        match *self {
            Sh::Flat(n) => n,
            Sh::T(a, b, c) => a * b * c,
        }
    }
    fn dims(&self) -> Vec<usize> {
        match *self {
            Sh::Flat(n) => vec![n],
            Sh::T(a, b, c) => vec![a, b, c],
        }
    }
    fn wrap(&self, v: &V1) -> Tensor {
        match *self {
            Sh::Flat(_) => t1(v),
            Sh::T(_, b, c) => t3(&v.chunks(b * c).map(|m| m.chunks(c).map(|r| r.to_vec()).collect()).collect()),
        }
    }
}

fn inputs(ctx: &mut Ctx, o: Obj, n: usize, interior: bool) -> (V1, V1) {
    if o.probabilistic() {
        let (lo, hi) = if interior { (2.0 * EPS, 1.0 - 2.0 * EPS) } else { (0.0, 1.0) };
        let p: V1 = (0..n).map(|i| ctx.var_in(&format!("p_{}", i), lo, hi)).collect();
        let t: V1 = (0..n).map(|i| ctx.var_in(&format!("t_{}", i), 0.0, 1.0)).collect();
        (p, t)
    } else {
        (v1(ctx, "p", n), v1(ctx, "t", n))
    }
}

/// loss / gradient formulas, clamp, shape; real arithmetic; per sign path for AE/MAE/RMSE
pub fn formula_case(o: Obj, sh: Sh, clamp: bool) -> Case {
    formula_case_k(o, sh, if clamp { 1 } else { 0 })
}

/// `kind`: 0 no clamp, 1 a finite symbolic interval, 2 `(lo, +inf)`, 3 `(-inf, hi)`, 4 `(-inf, +inf)` — one-sided
/// intervals are intervals too
pub fn formula_case_k(o: Obj, sh: Sh, kind: u8) -> Case {
    let clamp = kind != 0;
    Case {
        id: format!("C06/{}/{}/{}", o.name(), sh.tag(), ["noclamp", "clamp", "clamp-lower-only", "clamp-upper-only", "clamp-infinite"][kind as usize]),
        property: "C06",
        family: "objective::loss",
        class: o.name().to_string(),
        no_ties: false,
        max_paths: 4096,
        run: Box::new(move |ctx| {
            let n = sh.count();
            let (p, t) = inputs(ctx, o, n, false);
            let (mut lo, mut hi) = (ctx.var("lo"), ctx.var("hi"));
            if kind == 2 || kind == 4 {
                hi = lit(f32::INFINITY);
            }
            if kind == 3 || kind == 4 {
                lo = lit(f32::NEG_INFINITY);
            }
            let f = if clamp {
                if kind == 1 {
                    ctx.assume(B::Le(lo, hi));
                }
                Function::create(o.lib(), Some((lo, hi)))
            } else {
                Function::create(o.lib(), None)
            };
            let (loss, grad) = f.loss(&sh.wrap(&p), &sh.wrap(&t));
            ctx.fact("gradient-shape", dims(&grad) == sh.dims() && shape_dims(&grad.shape) == sh.dims() && rectangular(&grad), format!("{:?}", dims(&grad)));
            ctx.eq("loss", loss, loss_ref(o, &p, &t));
            let g = elems(&grad);
            ctx.fact("gradient-count", g.len() == n, String::new());
            for i in 0..n.min(g.len()) {
                let r = grad_ref(o, p[i], t[i], n);
                let r = if clamp { r.max(lo).min(hi) } else { r };
                ctx.eq(&format!("gradient[{}]", i), g[i], r);
                match kind {
                    1 => ctx.claim(&format!("gradient-in-interval[{}]", i), Th::Real, B::within(g[i], lo, hi)),
                    2 => ctx.claim(&format!("gradient-in-interval[{}]", i), Th::Real, B::Le(lo, g[i])),
                    3 => ctx.claim(&format!("gradient-in-interval[{}]", i), Th::Real, B::Le(g[i], hi)),
                    _ => {}
                }
            }
        }),
    }
}

/// for AE, MSE, BCE, KL the gradient is the derivative of the reported loss (away from ties; interior of the clamp)
pub fn derivative_case(o: Obj, sh: Sh) -> Case {
    Case {
        id: format!("C06/{}/{}/derivative", o.name(), sh.tag()),
        property: "C06",
        family: "objective::loss",
        class: format!("{}-derivative", o.name()),
        no_ties: true,
        max_paths: 4096,
        run: Box::new(move |ctx| {
            let n = sh.count();
            let (p, t) = inputs(ctx, o, n, true);
            let f = Function::create(o.lib(), None);
            let (loss, grad) = f.loss(&sh.wrap(&p), &sh.wrap(&t));
            let g = elems(&grad);
            for i in 0..n.min(g.len()) {
                ctx.grad(&format!("gradient-is-dloss[{}]", i), g[i], loss, &format!("p_{}", i));
            }
        }),
    }
}

/// the loss is finite for every finite in-domain input, including exact 0 and 1 (Float32)
pub fn finite_case(o: Obj, sh: Sh) -> Case {
    Case {
        id: format!("C06/{}/{}/finite", o.name(), sh.tag()),
        property: "C06",
        family: "objective::loss",
        class: format!("{}-finite", o.name()),
        no_ties: false,
        max_paths: 4096,
        run: Box::new(move |ctx| {
            let n = sh.count();
            let (p, t) = inputs(ctx, o, n, false);
            if !o.probabilistic() {
                ctx.fp_bound = Some(1.0e18);
            }
            let f = Function::create(o.lib(), None);
            let (loss, grad) = f.loss(&sh.wrap(&p), &sh.wrap(&t));
            ctx.claim("loss-finite", Th::Fp, B::finite(loss));
            let _ = grad;
        }),
    }
}

/// Negative control: MSE loss compared with the sum (not the mean) of squares.
pub fn control_case() -> Case {
    Case {
        id: "C06/control/mse-without-the-mean".into(),
        property: "C06",
        family: "control",
        class: "control".into(),
        no_ties: false,
        max_paths: 4,
        run: Box::new(move |ctx| {
            let (p, t) = (v1(ctx, "p", 2), v1(ctx, "t", 2));
            let f = Function::create(Objective::MSE, None);
            let (loss, _) = f.loss(&t1(&p), &t1(&t));
            ctx.eq("loss", loss, (t[0] - p[0]) * (t[0] - p[0]) + (t[1] - p[1]) * (t[1] - p[1]));
        }),
    }
}

pub fn cases(tier: Tier, _seed: u64) -> Vec<Case> {
    let full = tier == Tier::Thorough;
    let mut out = Vec::new();
    let shapes: Vec<Sh> = if full { vec![Sh::Flat(1), Sh::Flat(2), Sh::Flat(3), Sh::T(1, 2, 2), Sh::T(2, 1, 2)] } else { vec![Sh::Flat(2), Sh::T(1, 1, 2)] };
    for o in Obj::all() {
        for sh in shapes.iter() {
            // AE/MAE/RMSE fork three ways per element; keep them to <= 3 elements
            let forks = matches!(o, Obj::AE | Obj::MAE | Obj::RMSE);
            if forks && sh.count() > 3 {
                continue;
            }
            out.push(formula_case(o, *sh, false));
            out.push(formula_case(o, *sh, true));
            if sh.count() <= 2 || full {
                for kind in [2u8, 3, 4] {
                    if full || kind != 4 {
                        out.push(formula_case_k(o, *sh, kind));
                    }
                }
            }
            if matches!(o, Obj::AE | Obj::MSE | Obj::BinaryCrossEntropy | Obj::KLDivergence) {
                out.push(derivative_case(o, *sh));
            }
            if sh.count() <= 2 || full {
                out.push(finite_case(o, *sh));
            }
        }
    }
    out.push(control_case());
    out
}
