//! C07 — activations: defined function, exact derivative, total on finite floats.

use super::*;
use neurons::activation::Function;

fn make(shape: &str, ctx: &mut Ctx) -> (Tensor, V1, Vec<usize>) {
    match shape {
        "flat1" => {
            let x = v1(ctx, "x", 1);
            (t1(&x), x, vec![1])
        }
        "flat3" => {
            let x = v1(ctx, "x", 3);
            (t1(&x), x, vec![3])
        }
        "1x1x2" => {
            let x = v3(ctx, "x", 1, 1, 2);
            (t3(&x), flat3(&x), vec![1, 1, 2])
        }
        _ => {
            let x = v3(ctx, "x", 2, 1, 1);
            (t3(&x), flat3(&x), vec![2, 1, 1])
        }
    }
}

pub fn elementwise_case(act: Act, shape: &'static str) -> Case {
    Case {
        id: format!("C07/{}/{}", act.name(), shape),
        property: "C07",
        family: "activation::{forward,backward}",
        class: act.name().to_string(),
        no_ties: false,
        max_paths: 256,
        run: Box::new(move |ctx| {
            let f = Function::create(&act.lib());
            let (t, x, want) = make(shape, ctx);
            let y = f.forward(&t);
            let d = f.backward(&t);
            ctx.fact("forward-shape", dims(&y) == want && shape_dims(&y.shape) == want, format!("{:?}", dims(&y)));
            ctx.fact("backward-shape", dims(&d) == want && shape_dims(&d.shape) == want, format!("{:?}", dims(&d)));
            let (ey, ed) = (elems(&y), elems(&d));
            for i in 0..x.len().min(ey.len()).min(ed.len()) {
                // defining expression / derivative expression, bit for bit (modulo the sign of zero)
                ctx.claim(&format!("forward[{}]", i), Th::Fp, B::Eq(ey[i], act_ref(act, x[i])));
                ctx.claim(&format!("backward[{}]", i), Th::Fp, B::Eq(ed[i], act_dref(act, x[i])));
                ctx.claim(&format!("forward-finite[{}]", i), Th::Fp, B::finite(ey[i]));
                ctx.claim(&format!("backward-finite[{}]", i), Th::Fp, B::finite(ed[i]));
                match act {
                    Act::Sigmoid => ctx.claim(&format!("range[{}]", i), Th::Fp, B::within(ey[i], lit(0.0), lit(1.0))),
                    Act::Tanh => ctx.claim(&format!("range[{}]", i), Th::Fp, B::within(ey[i], lit(-1.0), lit(1.0))),
                    _ => {}
                }
            }
        }),
    }
}

/// The closed derivative forms the library uses equal the generic derivative rules (real arithmetic).
/// C01/C16 differentiate activation atoms in these closed forms (DESIGN §2.4).
pub fn alignment_case() -> Case {
    Case {
        id: "C07/derivative-forms".into(),
        property: "C07",
        family: "activation::{forward,backward}",
        class: "derivative-forms".into(),
        no_ties: true,
        max_paths: 16,
        run: Box::new(move |ctx| {
            for act in [Act::Sigmoid, Act::Tanh, Act::ReLU, Act::LeakyReLU, Act::Linear] {
                let f = Function::create(&act.lib());
                let x = v1(ctx, "x", 1);
                let y = elems(&f.forward(&t1(&x)));
                let d = elems(&f.backward(&t1(&x)));
                ctx.aligned_diff(false);
                ctx.grad(&format!("{}-backward-is-derivative-of-forward", act.name()), d[0], y[0], "x_0");
            }
        }),
    }
}

pub fn softmax_case(n: usize, shape3: bool) -> Case {
    Case {
        id: format!("C07/softmax/{}{}", n, if shape3 { "/1x1xn" } else { "" }),
        property: "C07",
        family: "activation::Softmax::forward",
        class: "softmax".into(),
        no_ties: false,
        max_paths: 4096,
        run: Box::new(move |ctx| {
            let f = Function::create(&Activation::Softmax);
            let x = v1(ctx, "x", n);
            let t = if shape3 { t3(&vec![vec![x.clone()]]) } else { t1(&x) };
            let y = f.forward(&t);
            let want = if shape3 { vec![1, 1, n] } else { vec![n] };
            ctx.fact("shape", dims(&y) == want && shape_dims(&y.shape) == want, format!("{:?}", dims(&y)));
            let ey = elems(&y);
            ctx.fact("count", ey.len() == n, String::new());
            if ey.len() != n {
                return;
            }
            // reals: non-negative, sums to one, equals the definition, shift-invariant
            let r = softmax_ref(&x);
            for i in 0..n {
                ctx.claim(&format!("nonneg[{}]", i), Th::Real, B::Le(lit(0.0), ey[i]));
                ctx.eq(&format!("definition[{}]", i), ey[i], r[i]);
            }
            ctx.eq("sum-to-one", rsum(&ey), lit(1.0));
            let c = ctx.var("c");
            let xs: V1 = x.iter().map(|v| *v + c).collect();
            let ts = if shape3 { t3(&vec![vec![xs.clone()]]) } else { t1(&xs) };
            let ys = elems(&f.forward(&ts));
            for i in 0..n.min(ys.len()) {
                ctx.eq(&format!("shift-invariant[{}]", i), ys[i], ey[i]);
            }
            // floats: finite and in [0,1] for arbitrary finite inputs
            for i in 0..n {
                ctx.claim(&format!("finite[{}]", i), Th::Fp, B::finite(ey[i]));
                ctx.claim(&format!("unit-interval[{}]", i), Th::Fp, B::within(ey[i], lit(0.0), lit(1.0)));
            }
            // floats: the outputs do not all vanish for arbitrary finite inputs — an overflowing normaliser would make
            // them all 0, a vanishing one NaN
            // (the normaliser lies in [1, n], so the entry of a largest input is at least 1/n up to rounding; a claim on
            // the rounded sum itself needs three symbolic divisions and did not finish in 180 s)
            if n <= 3 {
                // (n = 4 did not finish in 400 s)
                ctx.claim("largest-output-at-least-1/2n", Th::Fp, B::Or((0..n).map(|i| B::Le(lit(0.5 / n as f32), ey[i])).collect()));
            }
        }),
    }
}

/// long vectors ("all vector lengths"): soft-max over n inputs equals the definition; flat and 1 x h x w tensors
pub fn softmax_long_case(n: usize, dims3: Option<(usize, usize)>) -> Case {
    Case {
        id: format!("C07/softmax-long/{}{}", n, match dims3 { Some((h, w)) => format!("/1x{}x{}", h, w), None => String::new() }),
        property: "C07",
        family: "activation::Softmax::forward",
        class: "softmax".into(),
        no_ties: false,
        max_paths: 8,
        run: Box::new(move |ctx| {
            let f = Function::create(&Activation::Softmax);
            let x = v1(ctx, "x", n);
            let t = match dims3 {
                Some((h, w)) => t3(&vec![x.chunks(w).map(|r| r.to_vec()).collect::<Vec<_>>()[..h].to_vec()]),
                None => t1(&x),
            };
            let y = f.forward(&t);
            let ey = elems(&y);
            ctx.fact("count", ey.len() == n && dims(&y) == dims(&t), format!("{} {:?}", ey.len(), dims(&y)));
            if ey.len() != n {
                return;
            }
            // every output is the defining expression exp(x_i - max) / sum_j exp(x_j - max), summed in index order — as a
            // Float32 identity (the same DAG on an unchanged tree). That the defining expression sums to one is decided on
            // the short vectors; a solver query over a thousand quotients does not finish.
            // (the defining expression in evaluation order: running maximum from the left, exponentials summed from the left
            // starting at 0 — so that on an unchanged tree both sides are one DAG and nothing large reaches a solver)
            let mut m = lit(f32::NEG_INFINITY);
            for v in x.iter() {
                m = m.max(*v);
            }
            let e: V1 = x.iter().map(|v| (*v - m).exp()).collect();
            let mut s = lit(0.0);
            for v in e.iter() {
                s = s + *v;
            }
            // (a sparse set of positions: under a change every claim carries the whole thousand-term DAG to the solvers)
            let mut pos: Vec<usize> = vec![0, 1, 2, n / 2, n - 3, n - 2, n - 1];
            pos.extend((0..n).step_by(128));
            pos.sort();
            pos.dedup();
            for i in pos {
                ctx.claim(&format!("definition[{}]", i), Th::Fp, B::Ident(ey[i], e[i] / s));
            }
        }),
    }
}

/// Negative control: sigmoid compared with `1/(1+exp(x))`.
pub fn control_case() -> Case {
    Case {
        id: "C07/control/sigmoid-with-wrong-sign".into(),
        property: "C07",
        family: "control",
        class: "control".into(),
        no_ties: false,
        max_paths: 4,
        run: Box::new(move |ctx| {
            let f = Function::create(&Activation::Sigmoid);
            let x = v1(ctx, "x", 1);
            let y = elems(&f.forward(&t1(&x)));
            ctx.claim("forward[0]", Th::Fp, B::Eq(y[0], lit(1.0) / (lit(1.0) + x[0].exp())));
        }),
    }
}

pub fn cases(tier: Tier, _seed: u64) -> Vec<Case> {
    let full = tier == Tier::Thorough;
    let mut out = Vec::new();
    for act in Act::elementwise() {
        for shape in ["flat1", "flat3", "1x1x2", "2x1x1"] {
            if !full && shape == "flat3" && act.forks() {
                continue;
            }
            out.push(elementwise_case(act, shape));
        }
    }
    out.push(alignment_case());
    for n in if full { vec![1, 2, 3, 4] } else { vec![1, 2, 3] } {
        out.push(softmax_case(n, false));
    }
    out.push(softmax_case(2, true));
    out.push(softmax_long_case(1025, None));
    if full {
        out.push(softmax_long_case(1089, Some((33, 33))));
        out.push(softmax_long_case(2049, None));
    }
    out.push(control_case());
    out
}
