//! C10 — feedback blocks keep their repeated layers weight-tied.

use super::*;
use neurons::optimizer::{Adam, AdamW, Optimizer, RMSprop, SGD, SGDM};

#[derive(Clone, Copy, Debug, PartialEq)]
pub enum Opt {
    SGD,
    SGDM,
    Adam,
    AdamW,
    RMSprop,
}
impl Opt {
    pub fn name(self) -> &'static str {
        match self {
            Opt::SGD => "sgd",
            Opt::SGDM => "sgdm",
            Opt::Adam => "adam",
            Opt::AdamW => "adamw",
            Opt::RMSprop => "rmsprop",
        }
    }
    pub fn build(self) -> Optimizer {
        match self {
            Opt::SGD => SGD::create(lit(0.125), Some(lit(0.0625))),
            Opt::SGDM => SGDM::create(lit(0.125), lit(0.5), lit(0.25), None),
            Opt::Adam => Adam::create(lit(0.125), lit(0.5), lit(0.75), lit(0.0078125), None),
            Opt::AdamW => AdamW::create(lit(0.125), lit(0.5), lit(0.75), lit(0.0078125), lit(0.0625)),
            Opt::RMSprop => RMSprop::create(lit(0.125), lit(0.5), lit(0.0078125), None, Some(lit(0.5)), true),
        }
    }
    pub fn all() -> Vec<Opt> {
        vec![Opt::SGD, Opt::SGDM, Opt::Adam, Opt::AdamW, Opt::RMSprop]
    }
}

/// every coupled group holds identical parameters (identity of Float32 values)
fn check_tied(ctx: &mut Ctx, tag: &str, layer: &Layer, period: usize) {
    let fb = match layer {
        Layer::Feedback(f) => f,
        _ => return,
    };
    let n = fb.layers.len();
    ctx.require(n % period == 0, "the block stores one layer object per unrolled repetition");
    for j in 0..period {
        let (w0, b0) = hooks::params(&fb.layers[j]);
        let (e0, eb0): (V1, V1) = (w0.iter().flat_map(elems).collect(), b0.as_ref().map(elems).unwrap_or_default());
        let mut r = 1;
        while j + r * period < n {
            let (w, b) = hooks::params(&fb.layers[j + r * period]);
            let (e, eb): (V1, V1) = (w.iter().flat_map(elems).collect(), b.as_ref().map(elems).unwrap_or_default());
            ctx.fact(&format!("{}-copy{}-of-layer{}-count", tag, r, j), e.len() == e0.len() && eb.len() == eb0.len(), String::new());
            for i in 0..e.len().min(e0.len()) {
                ctx.claim(&format!("{}-weights[layer{}][copy{}][{}]", tag, j, r, i), Th::Fp, B::Ident(e[i], e0[i]));
            }
            for i in 0..eb.len().min(eb0.len()) {
                ctx.claim(&format!("{}-bias[layer{}][copy{}][{}]", tag, j, r, i), Th::Fp, B::Ident(eb[i], eb0[i]));
            }
            r += 1;
        }
    }
}

fn nested_gradients(ctx: &mut Ctx, fb: &neurons::feedback::Feedback, tag: &str) -> (Tensor, Tensor) {
    let mut wg = Vec::new();
    let mut bg = Vec::new();
    for (j, l) in fb.layers.iter().enumerate().rev() {
        let (w, b) = hooks::params(l);
        match w.first().map(|t| &t.data) {
            Some(Data::Double(d)) => wg.push(t2(&v2(ctx, &format!("{}gw{}", tag, j), d.len(), d[0].len()))),
            Some(Data::Triple(d)) => wg.push(Tensor::quadruple(v4(ctx, &format!("{}gk{}", tag, j), w.len(), d.len(), d[0].len(), d[0][0].len()))),
            _ => wg.push(t1(&Vec::new())),
        }
        bg.push(b.map(|b| t1(&v1(ctx, &format!("{}gb{}", tag, j), d1(&b).len()))));
    }
    (Tensor::nested(wg), Tensor::nestedoptional(bg))
}

pub fn supported(block_has_kernels: bool, acc: Acc) -> bool {
    match acc {
        Acc::Overwrite => false,
        Acc::Subtract | Acc::Multiply => !block_has_kernels,
        _ => true,
    }
}

/// k consecutive `Feedback::update` calls with independent symbolic gradients for every unrolled copy
pub fn update_case(name: &'static str, input: Shape, block: Vec<L>, loops: usize, acc: Acc, opt: Opt, steps: usize) -> Case {
    let kernels = block.iter().any(|l| matches!(l, L::Conv(..) | L::Deconv(..)));
    Case {
        id: format!("C10/update/{}/loops{}/{}/{}/steps{}", name, loops, acc.name(), opt.name(), steps),
        property: "C10",
        family: "Feedback::{create,update}",
        class: format!("update-{}", acc.name()),
        no_ties: false,
        max_paths: 64,
        run: Box::new(move |ctx| {
            let period = block.len();
            let mut net = build_net(input.clone(), &[L::Feedback(block.clone(), loops, false, false, acc)]);
            // at creation the copies are clones of the same (random) layers
            check_tied(ctx, "created", &net.layers[0], period);
            symbolize_feedback(ctx, &mut net.layers[0], period, "B");
            net.set_optimizer(opt.build());
            // parameter count: each shared parameter once
            let first: usize = match &net.layers[0] {
                Layer::Feedback(f) => f.layers[..period].iter().map(|l| { let (w, b) = hooks::params(l); w.iter().map(|t| elems(t).len()).sum::<usize>() + b.map(|b| elems(&b).len()).unwrap_or(0) }).sum(),
                _ => 0,
            };
            let (reported, shown) = match &net.layers[0] {
                Layer::Feedback(f) => (f.parameters(), format!("{}", net)),
                _ => (0, String::new()),
            };
            ctx.fact("parameter-count", reported == first, format!("reported {} expected {}", reported, first));
            ctx.fact("displayed-parameter-count", shown.contains(&format!("parameters: {}\n", first)) || shown.trim_end().ends_with(&format!("parameters: {}\n)", first)) || shown.contains(&format!("parameters: {}", first)), format!("display does not show `parameters: {}`", first));
            if !supported(kernels, acc) {
                return;
            }
            for k in 0..steps {
                let (mut wg, mut bg) = match &net.layers[0] {
                    Layer::Feedback(f) => nested_gradients(ctx, f, &format!("s{}", k)),
                    _ => unreachable!(),
                };
                if let Layer::Feedback(f) = &mut net.layers[0] {
                    f.update(k as i32 + 1, &mut wg, &mut bg);
                }
                check_tied(ctx, &format!("step{}", k), &net.layers[0], period);
            }
        }),
    }
}

/// Overflow: the accumulated value of a coupled group may be infinite although every copy is finite — the copies must
/// still agree (all of them hold that infinite value). Float32 only, any finite weights and gradients.
pub fn overflow_case(acc: Acc) -> Case {
    Case {
        id: format!("C10/update-overflow/dense1-nobias/loops2/{}/sgd", acc.name()),
        property: "C10",
        family: "Feedback::update",
        class: format!("update-{}", acc.name()),
        no_ties: false,
        max_paths: 256,
        run: Box::new(move |ctx| {
            ctx.extreme_values();
            let block = vec![L::Dense(1, Act::Linear, false)];
            let mut net = build_net(Shape::Single(1), &[L::Feedback(block, 2, false, false, acc)]);
            symbolize_feedback(ctx, &mut net.layers[0], 1, "B");
            net.set_optimizer(Opt::SGD.build());
            let (mut wg, mut bg) = match &net.layers[0] {
                Layer::Feedback(f) => nested_gradients(ctx, f, "s0"),
                _ => unreachable!(),
            };
            if let Layer::Feedback(f) = &mut net.layers[0] {
                f.update(1, &mut wg, &mut bg);
            }
            check_tied(ctx, "step0", &net.layers[0], 1);
        }),
    }
}

/// 1–2 epochs of `learn` (real optimizer): the copies are still identical afterwards
pub fn learn_case(name: &'static str, input: Shape, block: Vec<L>, loops: usize, acc: Acc, opt: Opt, batch: usize, epochs: usize) -> Case {
    Case {
        id: format!("C10/learn/{}/loops{}/{}/{}/batch{}/epochs{}", name, loops, acc.name(), opt.name(), batch, epochs),
        property: "C10",
        family: "Network::learn (feedback block)",
        class: format!("learn-{}", acc.name()),
        no_ties: false,
        max_paths: 64,
        run: Box::new(move |ctx| {
            let period = block.len();
            let mut net = build_net(input.clone(), &[L::Feedback(block.clone(), loops, false, false, acc), L::Dense(1, Act::Linear, true)]);
            symbolize_feedback(ctx, &mut net.layers[0], period, "B");
            symbolize_layer(ctx, &mut net.layers[1], "D");
            net.set_optimizer(opt.build());
            let xs: Vec<Tensor> = (0..2).map(|i| input_tensor(ctx, &input, &format!("x{}", i))).collect();
            let ts: Vec<Tensor> = (0..2).map(|i| t1(&v1(ctx, &format!("t{}", i), 1))).collect();
            let (xr, tr): (Vec<&Tensor>, Vec<&Tensor>) = (xs.iter().collect(), ts.iter().collect());
            let r = ctx.catch(|_| net.learn(&xr, &tr, None, batch, epochs as i32, None));
            if let Err(m) = r {
                ctx.fact("learn-returns", false, m);
                return;
            }
            check_tied(ctx, "after-learn", &net.layers[0], period);
        }),
    }
}

/// Negative control: two *different* layers of the block are claimed to be tied.
pub fn control_case() -> Case {
    Case {
        id: "C10/control/distinct-layers-claimed-tied".into(),
        property: "C10",
        family: "control",
        class: "control".into(),
        no_ties: false,
        max_paths: 4,
        run: Box::new(move |ctx| {
            let mut net = build_net(Shape::Single(2), &[L::Feedback(vec![L::Dense(2, Act::Linear, true), L::Dense(2, Act::Linear, true)], 1, false, false, Acc::Mean)]);
            symbolize_feedback(ctx, &mut net.layers[0], 2, "B");
            check_tied(ctx, "wrong", &net.layers[0], 1);
        }),
    }
}

pub fn cases(tier: Tier, seed: u64) -> Vec<Case> {
    let full = tier == Tier::Thorough;
    use Act::*;
    let blocks: Vec<(&'static str, Shape, Vec<L>)> = vec![
        ("dense2-bias", Shape::Single(2), vec![L::Dense(2, Linear, true)]),
        ("dense2-nobias", Shape::Single(2), vec![L::Dense(2, Tanh, false)]),
        ("dense3-dense2", Shape::Single(2), vec![L::Dense(3, Linear, true), L::Dense(2, Linear, false)]),
        ("conv-k3p1", Shape::Triple(1, 2, 2), vec![L::Conv(2, (3, 3), (1, 1), (1, 1), (1, 1), Linear), L::Conv(1, (1, 1), (1, 1), (0, 0), (1, 1), Linear)]),
        ("deconv-conv", Shape::Triple(1, 2, 2), vec![L::Deconv(1, (2, 2), (1, 1), (0, 0), Linear), L::Conv(1, (2, 2), (1, 1), (0, 0), (1, 1), Linear)]),
    ];
    let mut out = Vec::new();
    let mut n = 0u64;
    for (name, input, block) in blocks.iter() {
        for loops in 1..=3usize {
            for acc in [Acc::Add, Acc::Subtract, Acc::Multiply, Acc::Mean] {
                for opt in Opt::all() {
                    n += 1;
                    if !full && mix(n ^ seed) % 4 != 0 && !(name == &"dense2-bias" && loops == 2) {
                        continue;
                    }
                    out.push(update_case(name, input.clone(), block.clone(), loops, acc, opt, if full { 3 } else { 2 }));
                }
            }
        }
    }
    for (name, input, block) in blocks.iter() {
        for loops in 1..=3usize {
            out.push(update_case(name, input.clone(), block.clone(), loops, Acc::Add, Opt::SGD, 0));
        }
    }
    out.push(overflow_case(Acc::Add));
    out.push(overflow_case(Acc::Multiply));
    out.push(update_case("dense5-dense4-dense3-mixed-bias", Shape::Single(3), vec![L::Dense(5, Linear, true), L::Dense(4, Linear, false), L::Dense(3, Linear, true)], 2, Acc::Mean, Opt::SGD, if full { 2 } else { 1 }));
    for (name, input, block) in blocks.iter() {
        for (acc, opt, batch, epochs) in [(Acc::Mean, Opt::SGD, 1, 1), (Acc::Mean, Opt::Adam, 2, 2), (Acc::Add, Opt::SGDM, 2, 1)] {
            let kernels = block.iter().any(|l| matches!(l, L::Conv(..) | L::Deconv(..)));
            if !full && (kernels && opt == Opt::Adam) {
                continue;
            }
            out.push(learn_case(name, input.clone(), block.clone(), 2, acc, opt, batch, epochs));
        }
    }
    if full {
        out.push(learn_case("dense2-bias", Shape::Single(2), vec![L::Dense(2, Linear, true)], 3, Acc::Mean, Opt::RMSprop, 1, 2));
        out.push(learn_case("dense2-bias", Shape::Single(2), vec![L::Dense(2, Linear, true)], 2, Acc::Multiply, Opt::AdamW, 2, 1));
    }
    out.push(control_case());
    out
}
