//! C05 — results are independent of thread count and scheduling.
//!
//! The shadow crate links against the schedule-parametric rayon *model* (engine/rayon_model): closures of a
//! parallel stage run in an arbitrary order, collect preserves index order, reductions combine in an arbitrary
//! tree. Every path of the exploration is one schedule; its results are compared (identity of Float32 values)
//! with the results of the sequential schedule. Natively (replay) the two arms run on 1 and on 8 worker threads.

use super::*;
use neurons::optimizer::SGD;

fn mknet(ctx: &mut Ctx, input: &Shape, layers: &[L]) -> Network {
    let mut net = build_net(input.clone(), layers);
    symbolize(ctx, &mut net, "");
    for (i, l) in net.layers.iter_mut().enumerate() {
        if let L::Feedback(b, _, _, _, _) = &layers[i] {
            symbolize_feedback(ctx, l, b.len(), &format!("L{}", i));
        }
    }
    net.set_optimizer(SGD::create(lit(0.125), None));
    net
}

fn all_params(net: &Network) -> V1 {
    fn rec(l: &Layer, out: &mut V1) {
        match l {
            Layer::Feedback(f) => f.layers.iter().for_each(|x| rec(x, out)),
            other => {
                let (w, b) = hooks::params(other);
                w.iter().for_each(|t| out.extend(elems(t)));
                if let Some(b) = b {
                    out.extend(elems(&b));
                }
            }
        }
    }
    let mut out = Vec::new();
    net.layers.iter().for_each(|l| rec(l, &mut out));
    out
}

pub fn learn_case(name: &'static str, input: Shape, layers: Vec<L>, nout: usize, n: usize, batch: usize) -> Case {
    learn_case_mode(name, input, layers, nout, n, batch, "explore")
}

/// `mode` = "explore": every schedule of the stage; "reversed": the single schedule that runs the closures in reverse
/// order and reduces right-to-left (used for batches too large to enumerate: 8! orders)
pub fn learn_case_mode(name: &'static str, input: Shape, layers: Vec<L>, nout: usize, n: usize, batch: usize, mode: &'static str) -> Case {
    learn_case_wired(name, input, layers, vec![], nout, n, batch, mode)
}

/// … with skip connections. The network keeps its wiring in hash maps: their iteration order is arbitrary and differs
/// from run to run (fresh hash keys), so it is part of the "schedule" (symrt::hashmodel) — every repetition builds its
/// own network, as a repeated run of the same program does.
pub fn learn_case_wired(name: &'static str, input: Shape, layers: Vec<L>, skips: Vec<(usize, usize)>, nout: usize, n: usize, batch: usize, mode: &'static str) -> Case {
    Case {
        id: format!("C05/learn/{}/N{}-B{}{}", name, n, batch, if mode == "explore" { "" } else { "/reversed-schedule" }),
        property: "C05",
        family: "Network::learn (parallel batch)",
        class: "learn".into(),
        no_ties: false,
        max_paths: 1 << 12,
        run: Box::new(move |ctx| {
            let xs: Vec<Tensor> = (0..n).map(|i| input_tensor(ctx, &input, &format!("x{}", i))).collect();
            let ts: Vec<Tensor> = (0..n).map(|i| t1(&v1(ctx, &format!("t{}", i), nout))).collect();
            let vx: Vec<Tensor> = (0..2).map(|i| input_tensor(ctx, &input, &format!("vx{}", i))).collect();
            let vt: Vec<Tensor> = (0..2).map(|i| t1(&v1(ctx, &format!("vt{}", i), nout))).collect();
            let mut run = |ctx: &mut Ctx, threads: usize| -> (V1, V1, V1, V1) {
                let mut net = mknet(ctx, &input, &layers);
                for (a, b) in skips.iter() {
                    net.connect(*a, *b);
                }
                let (xr, tr): (Vec<&Tensor>, Vec<&Tensor>) = (xs.iter().collect(), ts.iter().collect());
                let (vxr, vtr): (Vec<&Tensor>, Vec<&Tensor>) = (vx.iter().collect(), vt.iter().collect());
                let (tl, vl, va) = ctx.with_threads(threads, || net.learn(&xr, &tr, Some((&vxr, &vtr, 5)), batch, 1, None));
                (tl, vl, va, all_params(&net))
            };
            ctx.schedule("sequential");
            let a = run(ctx, 1);
            let again = run(ctx, 1);
            ctx.schedule(mode);
            let b = run(ctx, 8);
            ctx.schedule("sequential");
            let same = |ctx: &mut Ctx, role: &str, x: &V1, y: &V1| {
                ctx.fact(&format!("{}-count", role), x.len() == y.len(), format!("{} {}", x.len(), y.len()));
                for i in 0..x.len().min(y.len()) {
                    ctx.claim(&format!("{}[{}]", role, i), Th::Fp, B::Ident(x[i], y[i]));
                }
            };
            same(ctx, "train-loss", &a.0, &b.0);
            same(ctx, "val-loss", &a.1, &b.1);
            same(ctx, "val-accuracy", &a.2, &b.2);
            same(ctx, "final-weights", &a.3, &b.3);
            same(ctx, "repeat-train-loss", &a.0, &again.0);
            same(ctx, "repeat-final-weights", &a.3, &again.3);
        }),
    }
}

pub fn eval_case(n: usize, what: &'static str) -> Case {
    Case {
        id: format!("C05/{}/n{}", what, n),
        property: "C05",
        family: "Network::{validate,predict_batch} (parallel chunks)",
        class: what.to_string(),
        no_ties: false,
        max_paths: 1 << 12,
        run: Box::new(move |ctx| {
            let input = Shape::Single(2);
            let layers = vec![L::Dense(2, Act::Tanh, true), L::Dense(1, Act::Linear, true)];
            let mut net = mknet(ctx, &input, &layers);
            // inputs on the chunk boundaries are symbolic, the rest distinct constants
            let xs: Vec<Tensor> = (0..n)
                .map(|i| if i % 64 == 0 || i % 64 == 63 || i + 1 == n { t1(&v1(ctx, &format!("x{}", i), 2)) } else { t1(&vec![lit(0.125 * (i % 13) as f32 - 0.5), lit(0.25 * (i % 7) as f32 - 0.75)]) })
                .collect();
            let ts: Vec<Tensor> = (0..n).map(|i| t1(&vec![lit(0.5 * (i % 5) as f32 - 1.0)])).collect();
            let (xr, tr): (Vec<&Tensor>, Vec<&Tensor>) = (xs.iter().collect(), ts.iter().collect());
            if what == "validate" {
                // every sample is assumed to lie within the (huge) tolerance, so the accuracy comparisons do not fork
                for i in 0..n {
                    let p = net.predict(&xs[i]);
                    ctx.assume(B::Lt((elems(&p)[0] - elems(&ts[i])[0]).abs(), lit(100.0)));
                }
            }
            let mut run = |ctx: &mut Ctx, net: &mut Network, threads: usize| -> V1 {
                if what == "predict_batch" {
                    let out = ctx.with_threads(threads, || net.predict_batch(&xr));
                    out.iter().flat_map(|t| elems(t)).collect()
                } else {
                    let (l, a) = ctx.with_threads(threads, || net.validate(&xr, &tr, lit(100.0)));
                    vec![l, a]
                }
            };
            ctx.schedule("sequential");
            let a = run(ctx, &mut net, 1);
            ctx.schedule("explore");
            let b = run(ctx, &mut net, 8);
            ctx.schedule("sequential");
            ctx.fact("count", a.len() == b.len(), format!("{} {}", a.len(), b.len()));
            for i in 0..a.len().min(b.len()) {
                ctx.claim(&format!("{}[{}]", what, i), Th::Fp, B::Ident(a[i], b[i]));
            }
        }),
    }
}

/// A wide dense layer: `Tensor::dot` and friends are sequential; were a long row summed in parallel, the split tree of the
/// float sum would depend on the thread count. 512 inputs, the reversed schedule (right-to-left reduction, 4 threads).
pub fn wide_case(width: usize) -> Case {
    Case {
        id: format!("C05/wide-dense/{}", width),
        property: "C05",
        family: "Network::{predict_batch,validate,learn} (wide rows)",
        class: "wide".into(),
        no_ties: false,
        max_paths: 64,
        run: Box::new(move |ctx| {
            let input = Shape::Single(width);
            let layers = vec![L::Dense(2, Act::Linear, true), L::Dense(1, Act::Linear, false)];
            let xs: Vec<Tensor> = (0..2).map(|i| input_tensor(ctx, &input, &format!("x{}", i))).collect();
            let ts: Vec<Tensor> = (0..2).map(|i| t1(&v1(ctx, &format!("t{}", i), 1))).collect();
            let mut run = |ctx: &mut Ctx, threads: usize| -> V1 {
                let mut net = mknet(ctx, &input, &layers);
                let (xr, tr): (Vec<&Tensor>, Vec<&Tensor>) = (xs.iter().collect(), ts.iter().collect());
                let mut out: V1 = ctx.with_threads(threads, || net.predict_batch(&xr)).iter().flat_map(|t| elems(t)).collect();
                let (tl, _, _) = ctx.with_threads(threads, || net.learn(&xr, &tr, None, 2, 1, None));
                out.extend(tl);
                out.extend(all_params(&net).into_iter().take(4));
                out
            };
            ctx.schedule("sequential");
            let a = run(ctx, 1);
            ctx.schedule("reversed");
            let b = run(ctx, 8);
            ctx.schedule("sequential");
            ctx.fact("count", a.len() == b.len(), format!("{} {}", a.len(), b.len()));
            for i in 0..a.len().min(b.len()) {
                ctx.claim(&format!("wide[{}]", i), Th::Fp, B::Ident(a[i], b[i]));
            }
        }),
    }
}

/// Negative control: a float sum reduced in schedule order is NOT schedule independent — the model must expose it.
pub fn control_case() -> Case {
    Case {
        id: "C05/control/schedule-ordered-float-sum".into(),
        property: "C05",
        family: "control",
        class: "control".into(),
        no_ties: false,
        max_paths: 64,
        run: Box::new(move |ctx| {
            let v = v1(ctx, "a", 3);
            ctx.schedule("sequential");
            let s1 = (v[0] + v[1]) + v[2];
            ctx.schedule("explore");
            // what a schedule-dependent reduction would compute under the right-to-left tree
            let s2 = v[0] + (v[1] + v[2]);
            ctx.schedule("sequential");
            ctx.claim("sum", Th::Fp, B::Ident(s1, s2));
        }),
    }
}

pub fn cases(tier: Tier, _seed: u64) -> Vec<Case> {
    let full = tier == Tier::Thorough;
    use Act::*;
    let mut out = Vec::new();
    out.push(learn_case("dense-dense", Shape::Single(2), vec![L::Dense(2, Tanh, true), L::Dense(1, Linear, true)], 1, 3, 3));
    out.push(learn_case("dense-dense", Shape::Single(2), vec![L::Dense(2, Tanh, true), L::Dense(1, Linear, true)], 1, 4, 2));
    out.push(learn_case("conv-pool-dense", Shape::Triple(1, 2, 2), vec![L::Conv(1, (2, 2), (1, 1), (1, 1), (1, 1), Linear), L::Pool((1, 1), (1, 1)), L::Dense(1, Linear, true)], 1, 3, 2));
    out.push(learn_case("deconv-dense", Shape::Triple(1, 1, 2), vec![L::Deconv(1, (1, 2), (1, 1), (0, 0), Linear), L::Dense(1, Linear, false)], 1, 2, 2));
    out.push(learn_case("feedback-dense", Shape::Single(2), vec![L::Feedback(vec![L::Dense(2, Linear, true)], 2, false, false, Acc::Mean), L::Dense(1, Linear, true)], 1, 3, 3));
    // a batch of 8 samples: one alternative schedule (reverse order, right-to-left reduction)
    out.push(learn_case_mode("dense-dense", Shape::Single(2), vec![L::Dense(2, Tanh, true), L::Dense(1, Linear, true)], 1, 8, 8, "reversed"));
    out.push(learn_case_mode("conv-pool-dense", Shape::Triple(1, 2, 2), vec![L::Conv(1, (2, 2), (1, 1), (1, 1), (1, 1), Linear), L::Pool((1, 1), (1, 1)), L::Dense(1, Linear, true)], 1, 12, 6, "reversed"));
    // two skip connections leaving the same layer (a three-term gradient sum whose order must not depend on hash order)
    let d = |n: usize, a: Act| L::Dense(n, a, false);
    out.push(learn_case_wired("dense4-skips-1to2-1to3", Shape::Single(2), vec![d(2, Linear), d(2, Linear), d(2, Linear), d(1, Linear)], vec![(1, 2), (1, 3)], 1, 2, 2, "explore"));
    out.push(learn_case_wired("dense4-skips-1to2-1to3", Shape::Single(2), vec![d(2, Tanh), d(2, Linear), d(2, Tanh), d(1, Linear)], vec![(1, 3), (1, 2)], 1, 3, 3, "reversed"));
    // dropout layers in training mode: the mask of a sample must not depend on which closure runs first
    out.push(learn_case("densedrop-dense", Shape::Single(2), vec![L::DenseDrop(3, Linear, true, 0.5), L::Dense(1, Linear, true)], 1, 3, 3));
    out.push(learn_case_mode("convdrop-dense", Shape::Triple(1, 2, 2), vec![L::ConvDrop(1, (1, 1), (1, 1), (0, 0), (1, 1), Linear, 0.5), L::Dense(1, Linear, false)], 1, 4, 4, "reversed"));
    if full {
        out.push(learn_case_wired("dense5-skips-1to2-1to3-1to4", Shape::Single(2), vec![d(2, Linear), d(2, Linear), d(2, Linear), d(2, Linear), d(1, Linear)], vec![(1, 2), (1, 3), (1, 4)], 1, 2, 2, "explore"));
        out.push(learn_case_wired("dense4-skips-0to1-1to2-1to3", Shape::Single(2), vec![d(2, Linear), d(2, Linear), d(2, Linear), d(1, Linear)], vec![(0, 1), (1, 2), (1, 3)], 1, 2, 1, "explore"));
        out.push(learn_case("dense-dense", Shape::Single(2), vec![L::Dense(2, Tanh, true), L::Dense(1, Linear, true)], 1, 5, 3));
        out.push(learn_case("conv-conv-dense", Shape::Triple(1, 3, 3), vec![L::Conv(1, (2, 2), (1, 1), (0, 0), (1, 1), Linear), L::Conv(1, (2, 2), (1, 1), (0, 0), (1, 1), Sigmoid), L::Dense(2, Linear, true)], 2, 3, 3));
    }
    for n in if full { vec![1usize, 64, 65, 129, 130] } else { vec![65usize, 129] } {
        out.push(eval_case(n, "predict_batch"));
        out.push(eval_case(n, "validate"));
    }
    out.push(wide_case(512));
    if full {
        out.push(wide_case(1024));
    }
    out.push(control_case());
    out
}
