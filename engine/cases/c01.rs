//! C01 — back-propagated gradients are the true derivatives.
//!
//! Every obligation compares one gradient component returned by the real `backward` with the symbolic
//! derivative (`symrt::diff`) of the DAG the real `forward` produced, "away from kinks and ties".
//! The upstream gradient `g` is symbolic, i.e. the claim is `backward(g) == d/dθ Σ_o g_o·y_o` for every g,
//! from which the chain rule for any objective follows (C06 ties objective gradients to the losses).

use super::*;
use neurons::{convolution::Convolution, deconvolution::Deconvolution, dense::Dense, feedback::Feedback, maxpool::Maxpool};

fn dot(g: &[S], y: &[S]) -> S {
    let t: V1 = g.iter().zip(y.iter()).map(|(a, b)| *a * *b).collect();
    sum(&t)
}

pub fn dense_case(nin: usize, nout: usize, act: Act, bias: bool) -> Case {
    Case {
        id: format!("C01/dense/{}to{}/{}/bias{}", nin, nout, act.name(), bias as u8),
        property: "C01",
        family: "Dense::backward",
        class: format!("act={}", act.name()),
        no_ties: true,
        max_paths: 256,
        run: Box::new(move |ctx| {
            ctx.aligned_diff(true);
            let mut layer = Layer::Dense(Dense::create(Shape::Single(nin), Shape::Single(nout), &act.lib(), bias, None));
            let w = v2(ctx, "w", nout, nin);
            let b = v1(ctx, "b", nout);
            let x = v1(ctx, "x", nin);
            let g = v1(ctx, "g", nout);
            hooks::set_params(&mut layer, vec![t2(&w)], if bias { Some(t1(&b)) } else { None });
            let dense = match &layer {
                Layer::Dense(d) => d,
                _ => unreachable!(),
            };
            let (pre, post) = dense.forward(&t1(&x));
            let (ig, wg, bg) = dense.backward(&t1(&g), &t1(&x), &pre);
            let loss = dot(&g, &d1(&post));
            ctx.fact("wgrad-shape", dims(&wg) == vec![nout, nin] && rectangular(&wg), format!("{:?}", dims(&wg)));
            ctx.fact("igrad-shape", dims(&ig) == vec![nin], format!("{:?}", dims(&ig)));
            ctx.fact("bgrad-presence", bg.is_some() == bias, String::new());
            let wg = d2(&wg);
            for o in 0..nout {
                for i in 0..nin {
                    ctx.grad(&format!("wgrad[{}][{}]", o, i), wg[o][i], loss, &format!("w_{}_{}", o, i));
                }
            }
            if let Some(bg) = bg {
                ctx.fact("bgrad-shape", dims(&bg) == vec![nout], format!("{:?}", dims(&bg)));
                let bg = d1(&bg);
                for o in 0..nout {
                    ctx.grad(&format!("bgrad[{}]", o), bg[o], loss, &format!("b_{}", o));
                }
            }
            let ig = d1(&ig);
            for i in 0..nin {
                ctx.grad(&format!("igrad[{}]", i), ig[i], loss, &format!("x_{}", i));
            }
        }),
    }
}

fn set_kernels(layer: &mut Layer, ks: &V4) {
    hooks::set_params(layer, ks.iter().map(|k| t3(k)).collect(), None);
}

fn spatial_grads(ctx: &mut Ctx, cfg: &Cfg, ig: &Tensor, kg: &Tensor, loss: S) {
    let ok_k = dims(kg) == vec![cfg.f, cfg.ic, cfg.k.0, cfg.k.1] && rectangular(kg);
    ctx.fact("kgrad-shape", ok_k, format!("{:?} expected {:?}", dims(kg), (cfg.f, cfg.ic, cfg.k.0, cfg.k.1)));
    let ok_i = dims(ig) == vec![cfg.ic, cfg.ih, cfg.iw] && rectangular(ig);
    ctx.fact("igrad-shape", ok_i, format!("{:?} expected {:?}", dims(ig), (cfg.ic, cfg.ih, cfg.iw)));
    if ok_k {
        let kg = d4(kg);
        for f in 0..cfg.f {
            for c in 0..cfg.ic {
                for h in 0..cfg.k.0 {
                    for w in 0..cfg.k.1 {
                        ctx.grad(&format!("kgrad[{}][{}][{}][{}]", f, c, h, w), kg[f][c][h][w], loss, &format!("k_{}_{}_{}_{}", f, c, h, w));
                    }
                }
            }
        }
    }
    if ok_i {
        let ig = d3(ig);
        for c in 0..cfg.ic {
            for h in 0..cfg.ih {
                for w in 0..cfg.iw {
                    ctx.grad(&format!("igrad[{}][{}][{}]", c, h, w), ig[c][h][w], loss, &format!("x_{}_{}_{}", c, h, w));
                }
            }
        }
    }
}

pub fn conv_case(cfg: Cfg, act: Act, flat_input: bool) -> Case {
    Case {
        id: format!("C01/conv/{}/{}/{}", cfg.tag(), act.name(), if flat_input { "flat" } else { "triple" }),
        property: "C01",
        family: "Convolution::backward",
        class: cfg.sd_class(),
        no_ties: true,
        max_paths: 128,
        run: Box::new(move |ctx| {
            ctx.aligned_diff(true);
            let mut layer = Layer::Convolution(Convolution::create(Shape::Triple(cfg.ic, cfg.ih, cfg.iw), cfg.f, &act.lib(), cfg.k, cfg.s, cfg.p, cfg.d, None));
            let (oh, ow) = cfg.conv_out().unwrap();
            let x = v3(ctx, "x", cfg.ic, cfg.ih, cfg.iw);
            let ks = v4(ctx, "k", cfg.f, cfg.ic, cfg.k.0, cfg.k.1);
            let g = v3(ctx, "g", cfg.f, oh, ow);
            set_kernels(&mut layer, &ks);
            let conv = match &layer {
                Layer::Convolution(c) => c,
                _ => unreachable!(),
            };
            let input = if flat_input { t1(&flat3(&x)) } else { t3(&x) };
            let (pre, post) = conv.forward(&input);
            let (ig, kg, _) = conv.backward(&t3(&g), &input, &pre);
            let loss = dot(&flat3(&g), &elems(&post));
            spatial_grads(ctx, &cfg, &ig, &kg, loss);
        }),
    }
}

pub fn deconv_case(cfg: Cfg, act: Act, flat_input: bool) -> Case {
    Case {
        id: format!("C01/deconv/{}/{}/{}", cfg.tag(), act.name(), if flat_input { "flat" } else { "triple" }),
        property: "C01",
        family: "Deconvolution::backward",
        class: cfg.sd_class(),
        no_ties: true,
        max_paths: 128,
        run: Box::new(move |ctx| {
            ctx.aligned_diff(true);
            let mut layer = Layer::Deconvolution(Deconvolution::create(Shape::Triple(cfg.ic, cfg.ih, cfg.iw), cfg.f, &act.lib(), cfg.k, cfg.s, cfg.p, None));
            let (oh, ow) = cfg.deconv_out().unwrap();
            let x = v3(ctx, "x", cfg.ic, cfg.ih, cfg.iw);
            let ks = v4(ctx, "k", cfg.f, cfg.ic, cfg.k.0, cfg.k.1);
            let g = v3(ctx, "g", cfg.f, oh, ow);
            set_kernels(&mut layer, &ks);
            let dc = match &layer {
                Layer::Deconvolution(c) => c,
                _ => unreachable!(),
            };
            let input = if flat_input { t1(&flat3(&x)) } else { t3(&x) };
            let (pre, post) = dc.forward(&input);
            let (ig, kg, _) = dc.backward(&t3(&g), &input, &pre);
            let loss = dot(&flat3(&g), &elems(&post));
            spatial_grads(ctx, &cfg, &ig, &kg, loss);
        }),
    }
}

pub fn pool_case(cfg: Cfg) -> Case {
    Case {
        id: format!("C01/maxpool/{}", cfg.tag()),
        property: "C01",
        family: "Maxpool::backward",
        class: "maxpool".into(),
        no_ties: true,
        max_paths: 4096,
        run: Box::new(move |ctx| {
            ctx.aligned_diff(true);
            let mp = Maxpool::create(Shape::Triple(cfg.ic, cfg.ih, cfg.iw), cfg.k, cfg.s);
            let (oh, ow) = cfg.pool_out().unwrap();
            let x = v3(ctx, "x", cfg.ic, cfg.ih, cfg.iw);
            let g = v3(ctx, "g", cfg.ic, oh, ow);
            let (_, post, max) = mp.forward(&t3(&x));
            let ig = mp.backward(&t3(&g), &max);
            let loss = dot(&flat3(&g), &elems(&post));
            let ok = dims(&ig) == vec![cfg.ic, cfg.ih, cfg.iw] && rectangular(&ig);
            ctx.fact("igrad-shape", ok, format!("{:?}", dims(&ig)));
            if ok {
                let ig = d3(&ig);
                for c in 0..cfg.ic {
                    for h in 0..cfg.ih {
                        for w in 0..cfg.iw {
                            ctx.grad(&format!("igrad[{}][{}][{}]", c, h, w), ig[c][h][w], loss, &format!("x_{}_{}_{}", c, h, w));
                        }
                    }
                }
            }
        }),
    }
}

/// Parameter variables of a (non-feedback) layer symbolised with prefix `p`: (gradient-tensor index path, variable name).
fn param_vars(layer: &Layer, p: &str) -> (Vec<(Vec<usize>, String)>, Vec<(usize, String)>) {
    let (ws, b) = hooks::params(layer);
    let mut wv = Vec::new();
    for (f, w) in ws.iter().enumerate() {
        match &w.data {
            Data::Double(d) => {
                for o in 0..d.len() {
                    for i in 0..d[0].len() {
                        wv.push((vec![o, i], format!("{}w_{}_{}", p, o, i)));
                    }
                }
            }
            Data::Triple(d) => {
                for c in 0..d.len() {
                    for h in 0..d[0].len() {
                        for w in 0..d[0][0].len() {
                            wv.push((vec![f, c, h, w], format!("{}k{}_{}_{}_{}", p, f, c, h, w)));
                        }
                    }
                }
            }
            _ => {}
        }
    }
    let mut bv = Vec::new();
    if let Some(b) = b {
        for o in 0..d1(&b).len() {
            bv.push((o, format!("{}b_{}", p, o)));
        }
    }
    (wv, bv)
}

fn index(t: &Tensor, path: &[usize]) -> Option<S> {
    match (&t.data, path.len()) {
        (Data::Double(d), 2) => d.get(path[0]).and_then(|r| r.get(path[1])).cloned(),
        (Data::Quadruple(d), 4) => d.get(path[0]).and_then(|a| a.get(path[1])).and_then(|a| a.get(path[2])).and_then(|a| a.get(path[3])).cloned(),
        _ => None,
    }
}

/// Compare the gradients a layer reports with `d loss / d parameter` for every parameter of the layer.
fn check_layer_grads(ctx: &mut Ctx, tag: &str, layer: &Layer, p: &str, wg: &Tensor, bg: &Option<Tensor>, loss: S) {
    let (wv, bv) = param_vars(layer, p);
    for (path, name) in wv.iter() {
        match index(wg, path) {
            Some(v) => ctx.grad(&format!("{}wgrad{:?}", tag, path), v, loss, name),
            None => ctx.fact(&format!("{}wgrad-shape", tag), false, format!("no gradient entry {:?} in {:?}", path, dims(wg))),
        }
    }
    if !bv.is_empty() {
        match bg {
            Some(bg) => {
                let bgv = d1(bg);
                for (o, name) in bv.iter() {
                    ctx.grad(&format!("{}bgrad[{}]", tag, o), bgv[*o], loss, name);
                }
            }
            None => ctx.fact(&format!("{}bgrad-presence", tag), false, "bias gradient missing".into()),
        }
    }
}

#[derive(Clone, Copy, Debug, PartialEq)]
pub enum Up {
    /// arbitrary symbolic upstream gradient g; loss := Σ g·y
    Generic,
    /// the network's own objective (gradient from `objective.loss`) — must be the derivative of the reported loss
    Objective(Obj),
}

pub fn net_case(name: &'static str, input: Shape, layers: Vec<L>, up: Up, max_paths: usize, class: &'static str) -> Case {
    Case {
        id: format!("C01/network/{}/{}", name, match up { Up::Generic => "generic".to_string(), Up::Objective(o) => o.name().to_string() }),
        property: "C01",
        family: "Network::backward",
        class: class.to_string(),
        no_ties: true,
        max_paths,
        run: Box::new(move |ctx| {
            ctx.aligned_diff(true);
            let mut net = build_net(input.clone(), &layers);
            // feedback blocks: every unrolled copy gets its own variables (separate parameters)
            for (i, layer) in net.layers.iter_mut().enumerate() {
                if let Layer::Feedback(fb) = layer {
                    for (j, l) in fb.layers.iter_mut().enumerate() {
                        symbolize_layer(ctx, l, &format!("L{}u{}", i, j));
                    }
                } else {
                    symbolize_layer(ctx, layer, &format!("L{}", i));
                }
            }
            let x = input_tensor(ctx, &input, "x");
            let (pre, post, mx, fb) = net.forward(&x);
            let y = elems(post.last().unwrap());
            let (loss, grad) = match up {
                Up::Generic => {
                    let g = v1(ctx, "g", y.len());
                    (dot(&g, &y), t1(&g))
                }
                Up::Objective(o) => {
                    net.set_objective(o.lib(), None);
                    // log-based objectives: interior of the prediction clamp and strictly positive targets
                    // (outside, the loss is flat while the documented gradient is not; C06 states the same interior)
                    let t: V1 = if o.probabilistic() { (0..y.len()).map(|i| ctx.var_in(&format!("t_{}", i), 0.015625, 1.0)).collect() } else { v1(ctx, "t", y.len()) };
                    if o.probabilistic() {
                        for yi in y.iter() {
                            ctx.assume(B::Lt(lit(2e-6), *yi));
                            ctx.assume(B::Lt(*yi, lit(1.0 - 2e-6)));
                        }
                    }
                    if o == Obj::CrossEntropy {
                        // one-hot-like targets: Σ t = 1
                        ctx.assume(B::Eq(rsum(&t), lit(1.0)));
                    }
                    let (loss, grad) = net.verif_loss(post.last().unwrap(), &t1(&t));
                    (loss, grad)
                }
            };
            let (wg, bg) = net.verif_backward(grad, &pre, &post, &mx, fb);
            let n = net.layers.len();
            ctx.fact("gradient-count", wg.len() == n && bg.len() == n, format!("{} {}", wg.len(), bg.len()));
            for (i, layer) in net.layers.iter().enumerate() {
                let (w, b) = (&wg[n - 1 - i], &bg[n - 1 - i]);
                match layer {
                    Layer::Feedback(fbk) => {
                        let m = fbk.layers.len();
                        let wn = w.unnested();
                        let bn = b.as_ref().map(|b| b.unnestedoptional()).unwrap_or_default();
                        ctx.fact(&format!("L{}-nested-count", i), wn.len() == m && bn.len() == m, format!("{} {}", wn.len(), bn.len()));
                        for (j, l) in fbk.layers.iter().enumerate() {
                            check_layer_grads(ctx, &format!("L{}u{}.", i, j), l, &format!("L{}u{}", i, j), &wn[m - 1 - j], &bn[m - 1 - j], loss);
                        }
                    }
                    Layer::Maxpool(_) => {}
                    _ => check_layer_grads(ctx, &format!("L{}.", i), layer, &format!("L{}", i), w, b, loss),
                }
            }
        }),
    }
}

/// Feedback block alone: `Feedback::backward` input gradient and per-copy parameter gradients.
pub fn feedback_case(name: &'static str, input: Shape, block: Vec<L>, loops: usize) -> Case {
    Case {
        id: format!("C01/feedback/{}/loops{}", name, loops),
        property: "C01",
        family: "Feedback::backward",
        class: "no-skips".into(),
        no_ties: true,
        max_paths: 256,
        run: Box::new(move |ctx| {
            ctx.aligned_diff(true);
            let mut net = build_net(input.clone(), &[L::Feedback(block.clone(), loops, false, false, Acc::Mean)]);
            let fbk: &mut Feedback = match &mut net.layers[0] {
                Layer::Feedback(f) => f,
                _ => unreachable!(),
            };
            for (j, l) in fbk.layers.iter_mut().enumerate() {
                symbolize_layer(ctx, l, &format!("u{}", j));
            }
            let x = input_tensor(ctx, &input, "x");
            let (_, post, _, upre, upost) = fbk.forward(&x);
            let y = elems(&post);
            let g = v1(ctx, "g", y.len());
            let loss = dot(&g, &y);
            let gt = match &post.data {
                Data::Triple(d) => {
                    let mut it = g.iter();
                    t3(&d.iter().map(|c| c.iter().map(|r| r.iter().map(|_| *it.next().unwrap()).collect()).collect()).collect())
                }
                _ => t1(&g),
            };
            let (ig, wgs, bgs) = fbk.backward(&gt, &vec![upre, upost]);
            let m = fbk.layers.len();
            let wn = wgs.unnested();
            let bn = bgs.map(|b| b.unnestedoptional()).unwrap_or_default();
            for (j, l) in fbk.layers.iter().enumerate() {
                check_layer_grads(ctx, &format!("u{}.", j), l, &format!("u{}", j), &wn[m - 1 - j], &bn[m - 1 - j], loss);
            }
            let xs = elems(&x);
            let igs = elems(&ig);
            ctx.fact("igrad-count", xs.len() == igs.len(), format!("{} {}", xs.len(), igs.len()));
            let names: Vec<String> = match &input {
                Shape::Single(n) => (0..*n).map(|i| format!("x_{}", i)).collect(),
                Shape::Triple(c, h, w) => {
                    let mut v = Vec::new();
                    for a in 0..*c {
                        for b in 0..*h {
                            for d in 0..*w {
                                v.push(format!("x_{}_{}_{}", a, b, d));
                            }
                        }
                    }
                    v
                }
                _ => Vec::new(),
            };
            for (i, nme) in names.iter().enumerate() {
                if i < igs.len() {
                    ctx.grad(&format!("igrad[{}]", i), igs[i], loss, nme);
                }
            }
        }),
    }
}

/// Negative control: the gradient is compared with the derivative w.r.t. the *wrong* variable.
pub fn control_case() -> Case {
    Case {
        id: "C01/control/dense-gradient-vs-derivative-of-transposed-weight".into(),
        property: "C01",
        family: "control",
        class: "control".into(),
        no_ties: true,
        max_paths: 4,
        run: Box::new(move |ctx| {
            ctx.aligned_diff(true);
            let mut layer = Layer::Dense(Dense::create(Shape::Single(2), Shape::Single(2), &Activation::Linear, false, None));
            let w = v2(ctx, "w", 2, 2);
            let x = v1(ctx, "x", 2);
            let g = v1(ctx, "g", 2);
            hooks::set_params(&mut layer, vec![t2(&w)], None);
            let dense = match &layer {
                Layer::Dense(d) => d,
                _ => unreachable!(),
            };
            let (pre, post) = dense.forward(&t1(&x));
            let (_, wg, _) = dense.backward(&t1(&g), &t1(&x), &pre);
            let loss = dot(&g, &d1(&post));
            ctx.grad("wgrad[0][1]", d2(&wg)[0][1], loss, "w_1_0");
        }),
    }
}

pub fn cases(tier: Tier, seed: u64) -> Vec<Case> {
    let full = tier == Tier::Thorough;
    let mut out = Vec::new();
    let sizes: &[(usize, usize)] = if full { &[(1, 1), (3, 2), (2, 3), (2, 2), (3, 3)] } else { &[(3, 2), (1, 1), (2, 2)] };
    for &(i, o) in sizes {
        for a in Act::elementwise() {
            for bias in [true, false] {
                if !full && !bias && a != Act::Tanh {
                    continue;
                }
                out.push(dense_case(i, o, a, bias));
            }
        }
    }
    // convolution over the lattice
    let size = |c: &Cfg| {
        let (oh, ow) = c.conv_out().unwrap();
        c.f * oh * ow * c.ic * c.k.0 * c.k.1
    };
    let cfgs = pick(conv_lattice(full), if full { 6000 } else { 24 }, seed ^ 0xc01, if full { 400 } else { 160 }, &size);
    for (i, c) in cfgs.into_iter().enumerate() {
        let (oh, ow) = c.conv_out().unwrap();
        let cells = c.f * oh * ow;
        let mut act = if i % 4 == 0 { Act::elementwise()[1 + (i / 4) % 4] } else { Act::Linear };
        if act.forks() && (cells > 6 || c.sd_class().contains("pad>k-1")) {
            // (padding beyond kernel-1 makes some output cells identically zero: always on the kink)
            act = Act::Tanh;
        }
        if (act == Act::Tanh || act == Act::Sigmoid) && cells * c.ic * c.k.0 * c.k.1 > 60 {
            act = Act::Linear;
        }
        out.push(conv_case(c, act, i % 5 == 2));
    }
    // beyond the lattice: strides 4..6 against dilations 2..4 (quick: stride 4 / dilation 2 on both axes and a seeded four)
    for (i, c) in extended_lattice().into_iter().enumerate() {
        let always = c.s.0.max(c.s.1) == 4 && c.d.0.max(c.d.1) == 2 && c.p == (0, 0);
        if full || always || mix(i as u64 ^ seed ^ 0xe01) % 9 == 0 {
            out.push(conv_case(c, Act::Linear, i % 2 == 1));
        }
    }
    // deconvolution
    let dsize = |c: &Cfg| match c.deconv_out() {
        Some((oh, ow)) => c.f * oh * ow * c.ic * c.k.0 * c.k.1,
        None => usize::MAX,
    };
    let dl: Vec<Cfg> = conv_lattice(full).into_iter().filter(|c| c.d == (1, 1) && c.ih <= 3 && c.iw <= 4 && c.deconv_out().is_some()).collect();
    let dcfgs = pick(dl, if full { 2000 } else { 12 }, seed ^ 0xdec1, if full { 600 } else { 250 }, &dsize);
    for (i, c) in dcfgs.into_iter().enumerate() {
        let (oh, ow) = c.deconv_out().unwrap();
        let mut act = if i % 4 == 1 { Act::elementwise()[1 + (i / 4) % 4] } else { Act::Linear };
        if act.forks() && c.f * oh * ow > 6 {
            act = Act::Linear;
        }
        if (act == Act::Tanh || act == Act::Sigmoid) && c.f * oh * ow * c.ic * c.k.0 * c.k.1 > 60 {
            act = Act::Linear;
        }
        out.push(deconv_case(c, act, i % 5 == 2));
    }
    // max-pool
    for &(ic, ih, iw) in &[(1usize, 2usize, 2usize), (1, 3, 3), (2, 2, 3), (1, 4, 4), (1, 3, 4)] {
        for &k in &[(1usize, 1usize), (2, 2), (2, 1), (1, 2), (3, 3)] {
            for &s in &[(1usize, 1usize), (2, 2), (1, 2)] {
                let c = Cfg { ic, ih, iw, f: ic, k, s, p: (0, 0), d: (1, 1) };
                if let Some((oh, ow)) = c.pool_out() {
                    let decisions = ic * oh * ow * (k.0 * k.1 - 1);
                    if decisions <= if full { 10 } else { 8 } && (full || mix(hash_str(&c.tag()) ^ seed) % 2 == 0) {
                        out.push(pool_case(c));
                    }
                }
            }
        }
    }
    // feedback blocks (no internal skips)
    use Act::*;
    out.push(feedback_case("dense2", Shape::Single(2), vec![L::Dense(2, Linear, true)], 2));
    out.push(feedback_case("dense2-tanh", Shape::Single(2), vec![L::Dense(2, Tanh, false)], 2));
    out.push(feedback_case("conv-k3p1", Shape::Triple(1, 2, 2), vec![L::Conv(1, (3, 3), (1, 1), (1, 1), (1, 1), Linear)], 2));
    if full {
        out.push(feedback_case("dense2", Shape::Single(2), vec![L::Dense(2, Linear, true)], 3));
        out.push(feedback_case("dense2-dense2", Shape::Single(2), vec![L::Dense(3, Linear, true), L::Dense(2, Sigmoid, false)], 2));
        out.push(feedback_case("deconv-conv", Shape::Triple(1, 2, 2), vec![L::Deconv(1, (2, 2), (1, 1), (0, 0), Linear), L::Conv(1, (2, 2), (1, 1), (0, 0), (1, 1), Linear)], 2));
        out.push(feedback_case("dense2-relu", Shape::Single(2), vec![L::Dense(2, ReLU, true)], 2));
    }
    // networks (chaining)
    let g = Up::Generic;
    out.push(net_case("dense-dense", Shape::Single(3), vec![L::Dense(2, Tanh, true), L::Dense(2, Linear, false)], g, 16, "chain"));
    out.push(net_case("dense-dense", Shape::Single(3), vec![L::Dense(2, Tanh, true), L::Dense(2, Linear, false)], Up::Objective(Obj::MSE), 16, "chain"));
    out.push(net_case(
        "conv-pool-dense",
        Shape::Triple(1, 3, 3),
        vec![L::Conv(1, (2, 2), (1, 1), (0, 0), (1, 1), Linear), L::Pool((2, 2), (1, 1)), L::Dense(2, Linear, true)],
        g,
        64,
        "chain",
    ));
    out.push(net_case(
        "dense-conv-dense",
        Shape::Single(2),
        vec![L::Dense(4, Linear, true), L::Conv(1, (2, 2), (1, 1), (1, 1), (1, 1), Sigmoid), L::Dense(1, Linear, false)],
        g,
        16,
        "chain",
    ));
    out.push(net_case(
        "deconv-conv-dense",
        Shape::Triple(1, 2, 2),
        vec![L::Deconv(1, (2, 2), (2, 2), (0, 0), Linear), L::Conv(1, (3, 3), (1, 1), (0, 0), (1, 1), Linear), L::Dense(1, Tanh, true)],
        g,
        16,
        "chain",
    ));
    out.push(net_case("dense-relu-dense", Shape::Single(2), vec![L::Dense(3, ReLU, true), L::Dense(2, LeakyReLU, true)], g, 64, "chain"));
    out.push(net_case("feedback-dense", Shape::Single(2), vec![L::Feedback(vec![L::Dense(2, Linear, true)], 2, false, false, Acc::Mean), L::Dense(1, Linear, false)], g, 16, "chain"));
    out.push(net_case(
        "feedback-feedback-dense",
        Shape::Single(2),
        vec![L::Feedback(vec![L::Dense(2, Tanh, true)], 2, false, false, Acc::Mean), L::Feedback(vec![L::Dense(2, Linear, true)], 2, false, false, Acc::Mean), L::Dense(1, Linear, false)],
        g,
        16,
        "chain",
    ));
    out.push(net_case("dense-softmax", Shape::Single(2), vec![L::Dense(2, Softmax, true)], Up::Objective(Obj::CrossEntropy), 64, "softmax+cross-entropy"));
    if full {
        for o in [Obj::AE, Obj::MSE, Obj::BinaryCrossEntropy, Obj::KLDivergence] {
            let last = if o.probabilistic() { Sigmoid } else { Linear };
            // (binary cross-entropy through a tanh hidden layer is beyond the nonlinear solvers: linear hidden layer there)
            if o == Obj::BinaryCrossEntropy {
                out.push(net_case("dense-obj", Shape::Single(2), vec![L::Dense(2, last, true)], Up::Objective(o), 256, "chain"));
                continue;
            }
            out.push(net_case("dense-dense-obj", Shape::Single(2), vec![L::Dense(2, Tanh, true), L::Dense(2, last, true)], Up::Objective(o), 256, "chain"));
        }
        out.push(net_case(
            "conv-conv-dense",
            Shape::Triple(2, 3, 3),
            vec![L::Conv(2, (2, 2), (1, 1), (0, 0), (1, 1), Linear), L::Conv(1, (2, 2), (1, 1), (1, 1), (1, 1), Linear), L::Dense(2, Linear, true)],
            g,
            16,
            "chain",
        ));
        out.push(net_case(
            "pool-deconv-dense",
            Shape::Triple(1, 3, 3),
            vec![L::Pool((2, 2), (1, 1)), L::Deconv(1, (2, 2), (1, 1), (0, 0), Linear), L::Dense(1, Linear, false)],
            g,
            4096,
            "chain",
        ));
        out.push(net_case(
            "feedbackconv-dense",
            Shape::Triple(1, 2, 2),
            vec![L::Feedback(vec![L::Conv(1, (3, 3), (1, 1), (1, 1), (1, 1), Linear)], 2, false, false, Acc::Mean), L::Dense(1, Linear, true)],
            g,
            16,
            "chain",
        ));
        out.push(net_case("dense-softmax-nobias", Shape::Single(1), vec![L::Dense(2, Softmax, false)], Up::Objective(Obj::CrossEntropy), 64, "softmax+cross-entropy"));
        out.push(net_case(
            "conv-s2-dense",
            Shape::Triple(1, 4, 4),
            vec![L::Conv(1, (2, 2), (2, 2), (0, 0), (1, 1), Linear), L::Dense(1, Linear, false)],
            g,
            16,
            "chain-stride>1",
        ));
    }
    out.push(control_case());
    out
}
