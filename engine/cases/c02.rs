//! C02 — each layer's forward pass computes its defining operator.

use super::*;
use neurons::{convolution::Convolution, deconvolution::Deconvolution, dense::Dense, maxpool::Maxpool};

fn acts() -> Vec<Act> {
    Act::elementwise()
}

pub fn dense_case(nin: usize, nout: usize, act: Act, bias: bool) -> Case {
    let id = format!("C02/dense/{}to{}/{}/bias{}", nin, nout, act.name(), bias as u8);
    Case {
        id,
        property: "C02",
        family: "Dense::forward",
        class: format!("act={}", act.name()),
        no_ties: false,
        max_paths: 64,
        run: Box::new(move |ctx| {
            let mut layer = Layer::Dense(Dense::create(Shape::Single(nin), Shape::Single(nout), &act.lib(), bias, None));
            let w = v2(ctx, "w", nout, nin);
            let b = v1(ctx, "b", nout);
            let x = v1(ctx, "x", nin);
            hooks::set_params(&mut layer, vec![t2(&w)], if bias { Some(t1(&b)) } else { None });
            let dense = match &layer {
                Layer::Dense(d) => d,
                _ => unreachable!(),
            };
            let (pre, post) = dense.forward(&t1(&x));
            ctx.fact("pre-shape", dims(&pre) == vec![nout], format!("{:?}", dims(&pre)));
            ctx.fact("post-shape", dims(&post) == vec![nout], format!("{:?}", dims(&post)));
            let (pre, post) = (d1(&pre), d1(&post));
            let mut refpre = Vec::new();
            for i in 0..nout {
                let terms: V1 = (0..nin).map(|j| w[i][j] * x[j]).collect();
                let mut r = rsum(&terms);
                if bias {
                    r = b[i] + r;
                }
                refpre.push(r);
                ctx.eq(&format!("pre[{}]", i), pre[i], r);
            }
            if act == Act::Softmax {
                let sm = softmax_ref(&refpre);
                for i in 0..nout {
                    ctx.eq(&format!("post[{}]", i), post[i], sm[i]);
                }
            } else {
                for i in 0..nout {
                    ctx.eq(&format!("post[{}]", i), post[i], act_ref(act, refpre[i]));
                }
            }
        }),
    }
}

/// Float32 reading of "activation(W x + b)" for activations with a bounded range: whatever finite pre-activation the
/// layer reaches, a sigmoid / tanh / soft-max dense layer outputs finite values inside the function's range (no NaN from an
/// overflowing or vanishing intermediate). One input, `nout` outputs, symbolic weights with |.| <= 2^20.
pub fn dense_range_case(nout: usize, act: Act) -> Case {
    Case {
        id: format!("C02/dense-range/1to{}/{}", nout, act.name()),
        property: "C02",
        family: "Dense::forward",
        class: format!("range-{}", act.name()),
        no_ties: false,
        max_paths: 64,
        run: Box::new(move |ctx| {
            let mut layer = Layer::Dense(Dense::create(Shape::Single(1), Shape::Single(nout), &act.lib(), true, None));
            ctx.fp_bound = Some(1048576.0);
            let w = v2(ctx, "w", nout, 1);
            let b = v1(ctx, "b", nout);
            let x = v1(ctx, "x", 1);
            hooks::set_params(&mut layer, vec![t2(&w)], Some(t1(&b)));
            let dense = match &layer {
                Layer::Dense(d) => d,
                _ => unreachable!(),
            };
            let (_, post) = dense.forward(&t1(&x));
            let post = d1(&post);
            ctx.fact("count", post.len() == nout, String::new());
            let lo = if act == Act::Tanh { lit(-1.0) } else { lit(0.0) };
            for i in 0..post.len() {
                ctx.claim(&format!("post-in-range[{}]", i), Th::Fp, B::within(post[i], lo, lit(1.0)));
            }
        }),
    }
}

fn set_kernels(layer: &mut Layer, ks: &V4) {
    hooks::set_params(layer, ks.iter().map(|k| t3(k)).collect(), None);
}

pub fn conv_case(cfg: Cfg, act: Act, flat_input: bool) -> Case {
    let id = format!("C02/conv/{}/{}/{}", cfg.tag(), act.name(), if flat_input { "flat" } else { "triple" });
    let class = cfg.sd_class();
    Case {
        id,
        property: "C02",
        family: "Convolution::forward",
        class,
        no_ties: false,
        max_paths: 256,
        run: Box::new(move |ctx| {
            let mut layer = Layer::Convolution(Convolution::create(
                Shape::Triple(cfg.ic, cfg.ih, cfg.iw),
                cfg.f,
                &act.lib(),
                cfg.k,
                cfg.s,
                cfg.p,
                cfg.d,
                None,
            ));
            let (oh, ow) = cfg.conv_out().unwrap();
            let (_, announced) = hooks::shapes(&layer);
            ctx.fact("announced-shape", shape_dims(&announced) == vec![cfg.f, oh, ow], format!("{:?}", announced));
            let x = v3(ctx, "x", cfg.ic, cfg.ih, cfg.iw);
            let ks = v4(ctx, "k", cfg.f, cfg.ic, cfg.k.0, cfg.k.1);
            set_kernels(&mut layer, &ks);
            let conv = match &layer {
                Layer::Convolution(c) => c,
                _ => unreachable!(),
            };
            let input = if flat_input { t1(&flat3(&x)) } else { t3(&x) };
            let (pre, post) = conv.forward(&input);
            ctx.fact("pre-shape", dims(&pre) == vec![cfg.f, oh, ow] && rectangular(&pre), format!("{:?}", dims(&pre)));
            ctx.fact("post-shape", dims(&post) == vec![cfg.f, oh, ow] && rectangular(&post), format!("{:?}", dims(&post)));
            ctx.fact("recorded-shape", shape_dims(&pre.shape) == dims(&pre) && shape_dims(&post.shape) == dims(&post), String::new());
            let (pre, post) = (d3(&pre), d3(&post));
            let r = conv_ref(&cfg, &x, &ks);
            for f in 0..cfg.f {
                for a in 0..oh {
                    for b in 0..ow {
                        ctx.eq(&format!("pre[{}][{}][{}]", f, a, b), pre[f][a][b], r[f][a][b]);
                        ctx.eq(&format!("post[{}][{}][{}]", f, a, b), post[f][a][b], act_ref(act, r[f][a][b]));
                    }
                }
            }
        }),
    }
}

/// Negative control: the reference has stride and dilation swapped, so the obligations MUST come back `sat`.
pub fn control_case() -> Case {
    let cfg = Cfg { ic: 1, ih: 5, iw: 5, f: 1, k: (2, 2), s: (2, 2), p: (0, 0), d: (1, 1) };
    Case {
        id: "C02/control/conv-reference-with-stride-and-dilation-swapped".into(),
        property: "C02",
        family: "control",
        class: "control".into(),
        no_ties: false,
        max_paths: 4,
        run: Box::new(move |ctx| {
            let mut layer = Layer::Convolution(Convolution::create(Shape::Triple(1, 5, 5), 1, &Activation::Linear, cfg.k, cfg.s, cfg.p, cfg.d, None));
            let x = v3(ctx, "x", 1, 5, 5);
            let ks = v4(ctx, "k", 1, 1, 2, 2);
            set_kernels(&mut layer, &ks);
            let conv = match &layer {
                Layer::Convolution(c) => c,
                _ => unreachable!(),
            };
            let (pre, _) = conv.forward(&t3(&x));
            let pre = d3(&pre);
            let wrong = Cfg { s: cfg.d, d: cfg.s, ..cfg.clone() };
            let r = conv_ref(&wrong, &x, &ks);
            ctx.eq("pre[0][1][1]", pre[0][1][1], r[0][1][1]);
        }),
    }
}

pub fn deconv_case(cfg: Cfg, act: Act, flat_input: bool) -> Case {
    let id = format!("C02/deconv/{}/{}/{}", cfg.tag(), act.name(), if flat_input { "flat" } else { "triple" });
    Case {
        id,
        property: "C02",
        family: "Deconvolution::forward",
        class: cfg.sd_class(),
        no_ties: false,
        max_paths: 256,
        run: Box::new(move |ctx| {
            let mut layer = Layer::Deconvolution(Deconvolution::create(
                Shape::Triple(cfg.ic, cfg.ih, cfg.iw),
                cfg.f,
                &act.lib(),
                cfg.k,
                cfg.s,
                cfg.p,
                None,
            ));
            let (oh, ow) = cfg.deconv_out().unwrap();
            let (_, announced) = hooks::shapes(&layer);
            ctx.fact("announced-shape", shape_dims(&announced) == vec![cfg.f, oh, ow], format!("{:?}", announced));
            let x = v3(ctx, "x", cfg.ic, cfg.ih, cfg.iw);
            let ks = v4(ctx, "k", cfg.f, cfg.ic, cfg.k.0, cfg.k.1);
            set_kernels(&mut layer, &ks);
            let dc = match &layer {
                Layer::Deconvolution(c) => c,
                _ => unreachable!(),
            };
            let input = if flat_input { t1(&flat3(&x)) } else { t3(&x) };
            let (pre, post) = dc.forward(&input);
            ctx.fact("pre-shape", dims(&pre) == vec![cfg.f, oh, ow] && rectangular(&pre), format!("{:?}", dims(&pre)));
            ctx.fact("post-shape", dims(&post) == vec![cfg.f, oh, ow] && rectangular(&post), format!("{:?}", dims(&post)));
            let (pre, post) = (d3(&pre), d3(&post));
            let r = deconv_ref(&cfg, &x, &ks);
            for f in 0..cfg.f {
                for a in 0..oh {
                    for b in 0..ow {
                        ctx.eq(&format!("pre[{}][{}][{}]", f, a, b), pre[f][a][b], r[f][a][b]);
                        ctx.eq(&format!("post[{}][{}][{}]", f, a, b), post[f][a][b], act_ref(act, r[f][a][b]));
                    }
                }
            }
        }),
    }
}

pub fn pool_case(cfg: Cfg, flat_input: bool) -> Case {
    let id = format!("C02/maxpool/{}/{}", cfg.tag(), if flat_input { "flat" } else { "triple" });
    Case {
        id,
        property: "C02",
        family: "Maxpool::forward",
        class: if flat_input { "flat-input".into() } else { "triple-input".into() },
        no_ties: false,
        max_paths: 4096,
        run: Box::new(move |ctx| {
            let mp = Maxpool::create(Shape::Triple(cfg.ic, cfg.ih, cfg.iw), cfg.k, cfg.s);
            let layer = Layer::Maxpool(mp);
            let (oh, ow) = cfg.pool_out().unwrap();
            let (_, announced) = hooks::shapes(&layer);
            ctx.fact("announced-shape", shape_dims(&announced) == vec![cfg.ic, oh, ow], format!("{:?}", announced));
            let x = v3(ctx, "x", cfg.ic, cfg.ih, cfg.iw);
            let mp = match &layer {
                Layer::Maxpool(m) => m,
                _ => unreachable!(),
            };
            let input = if flat_input { t1(&flat3(&x)) } else { t3(&x) };
            let (pre, post, _) = mp.forward(&input);
            ctx.fact("pre-shape", dims(&pre) == vec![cfg.ic, oh, ow] && rectangular(&pre), format!("{:?}", dims(&pre)));
            ctx.fact("post-shape", dims(&post) == vec![cfg.ic, oh, ow] && rectangular(&post), format!("{:?}", dims(&post)));
            let (pre, post) = (d3(&pre), d3(&post));
            let r = pool_ref(&cfg, &x);
            for c in 0..cfg.ic {
                for a in 0..oh {
                    for b in 0..ow {
                        ctx.eq(&format!("pre[{}][{}][{}]", c, a, b), pre[c][a][b], r[c][a][b]);
                        ctx.eq(&format!("post[{}][{}][{}]", c, a, b), post[c][a][b], r[c][a][b]);
                    }
                }
            }
        }),
    }
}

pub fn net_case(name: &'static str, input: Shape, layers: Vec<L>, max_paths: usize) -> Case {
    Case {
        id: format!("C02/network/{}", name),
        property: "C02",
        family: "Network::forward",
        class: name.to_string(),
        no_ties: false,
        max_paths,
        run: Box::new(move |ctx| {
            let mut net = build_net(input.clone(), &layers);
            symbolize(ctx, &mut net, "");
            let x = input_tensor(ctx, &input, "x");
            let y = net.predict(&x);
            let (_, activated, _, _) = net.forward(&x);
            ctx.fact("activated-count", activated.len() == net.layers.len() + 1, format!("{}", activated.len()));
            // manual composition with the layers' public forward
            let mut cur = x.clone();
            for (i, layer) in net.layers.iter().enumerate() {
                let (_, announced) = hooks::shapes(layer);
                let (_, flatten, _) = hooks::flags(layer);
                cur = match layer {
                    Layer::Dense(l) => l.forward(&cur).1,
                    Layer::Convolution(l) => l.forward(&cur).1,
                    Layer::Deconvolution(l) => l.forward(&cur).1,
                    Layer::Maxpool(l) => l.forward(&cur).1,
                    Layer::Feedback(l) => l.forward(&cur).1,
                };
                let want = if flatten == Some(true) { vec![shape_count(&announced)] } else { shape_dims(&announced) };
                ctx.fact(&format!("layer{}-shape", i), dims(&cur) == want, format!("{:?} vs announced {:?}", dims(&cur), want));
                let a = elems(&activated[i + 1]);
                let c = elems(&cur);
                ctx.fact(&format!("layer{}-count", i), a.len() == c.len(), String::new());
                for (j, (p, q)) in a.iter().zip(c.iter()).enumerate() {
                    ctx.eq(&format!("act{}[{}]", i + 1, j), *p, *q);
                }
            }
            let (ye, ce) = (elems(&y), elems(&cur));
            ctx.fact("output-count", ye.len() == ce.len(), String::new());
            for (j, (p, q)) in ye.iter().zip(ce.iter()).enumerate() {
                ctx.eq(&format!("predict[{}]", j), *p, *q);
            }
        }),
    }
}

pub fn cases(tier: Tier, seed: u64) -> Vec<Case> {
    let full = tier == Tier::Thorough;
    let mut out = Vec::new();
    // dense
    let sizes: &[(usize, usize)] = if full { &[(1, 1), (3, 2), (2, 3), (4, 4)] } else { &[(3, 2), (1, 1)] };
    for &(i, o) in sizes {
        for a in acts().into_iter().chain(std::iter::once(Act::Softmax)) {
            for bias in [true, false] {
                if !full && !bias && a != Act::Linear {
                    continue;
                }
                out.push(dense_case(i, o, a, bias));
            }
        }
    }
    out.push(dense_range_case(2, Act::Softmax));
    out.push(dense_range_case(1, Act::Sigmoid));
    out.push(dense_range_case(1, Act::Tanh));
    if full {
        out.push(dense_range_case(3, Act::Softmax));
    }
    // convolution
    let size = |c: &Cfg| {
        let (oh, ow) = c.conv_out().unwrap();
        c.f * oh * ow * c.ic * c.k.0 * c.k.1
    };
    let cfgs = pick(conv_lattice(full), if full { 12000 } else { 20 }, seed, if full { 600 } else { 200 }, &size);
    for (i, c) in cfgs.into_iter().enumerate() {
        let act = if i % 5 == 0 { acts()[1 + (i / 5) % 4] } else { Act::Linear };
        // activations that fork (leaky) only on small outputs
        let (oh, ow) = c.conv_out().unwrap();
        let act = if act.forks() && (c.f * oh * ow > 6 || c.sd_class().contains("pad>k-1")) { Act::Linear } else { act };
        out.push(conv_case(c.clone(), act, i % 3 == 1));
    }
    // beyond the lattice: strides 4..6 against dilations 2..4
    for (i, c) in extended_lattice().into_iter().enumerate() {
        let always = c.s.0.max(c.s.1) == 4 && c.d.0.max(c.d.1) == 2 && c.p == (0, 0);
        if full || always || mix(i as u64 ^ seed ^ 0xe02) % 9 == 0 {
            out.push(conv_case(c, Act::Linear, i % 2 == 1));
        }
    }
    // more output rows / columns than the library's internal chunk size (64), not a multiple of it
    for (ih, iw, k) in [(66usize, 1usize, (2usize, 1usize)), (1, 67, (1, 2)), (70, 2, (2, 2))] {
        if full || ih == 66 {
            out.push(conv_case(Cfg { ic: 1, ih, iw, f: 1, k, s: (1, 1), p: (0, 0), d: (1, 1) }, Act::Linear, ih == 70));
        }
    }
    // deconvolution (dilation fixed to 1)
    let dsize = |c: &Cfg| match c.deconv_out() {
        Some((oh, ow)) => c.f * oh * ow * c.ic * c.k.0 * c.k.1,
        None => usize::MAX,
    };
    let dl: Vec<Cfg> = conv_lattice(full).into_iter().filter(|c| c.d == (1, 1) && c.ih <= 3 && c.iw <= 4 && c.deconv_out().is_some()).collect();
    let dcfgs = pick(dl, if full { 3000 } else { 12 }, seed ^ 0xdec0, if full { 800 } else { 300 }, &dsize);
    for (i, c) in dcfgs.into_iter().enumerate() {
        let act = if i % 4 == 0 { Act::Tanh } else { Act::Linear };
        out.push(deconv_case(c.clone(), act, i % 3 == 1));
    }
    // always: disjoint output windows (stride >= kernel) with two input channels and two filters
    for (k, s) in [((1usize, 1usize), (2usize, 2usize)), ((2, 2), (2, 2)), ((1, 2), (2, 3))] {
        let c = Cfg { ic: 2, ih: 2, iw: 2, f: 2, k, s, p: (0, 0), d: (1, 1) };
        out.push(deconv_case(c, Act::Linear, k == (2, 2)));
    }
    // max-pool
    let pools: Vec<Cfg> = {
        let mut v = Vec::new();
        for &(ic, ih, iw) in &[(1usize, 2usize, 2usize), (1, 3, 3), (2, 2, 3), (1, 4, 4), (1, 3, 4)] {
            for &k in &[(1usize, 1usize), (2, 2), (2, 1), (1, 2), (3, 3)] {
                for &s in &[(1usize, 1usize), (2, 2), (1, 2)] {
                    let c = Cfg { ic, ih, iw, f: ic, k, s, p: (0, 0), d: (1, 1) };
                    if let Some((oh, ow)) = c.pool_out() {
                        // keep the number of forking windows small (<= 3 non-trivial windows)
                        let decisions = ic * oh * ow * (k.0 * k.1 - 1);
                        if decisions <= if full { 10 } else { 8 } {
                            v.push(c);
                        }
                    }
                }
            }
        }
        v
    };
    for (i, c) in pools.into_iter().enumerate() {
        if !full && mix(hash_str(&c.tag()) ^ seed) % 3 == 0 && i > 4 {
            continue;
        }
        out.push(pool_case(c.clone(), false));
        out.push(pool_case(c, true));
    }
    out.push(control_case());
    // network composition
    use Act::*;
    out.push(net_case("dense-dense", Shape::Single(3), vec![L::Dense(2, Tanh, true), L::Dense(2, Linear, false)], 16));
    out.push(net_case(
        "conv-pool-dense",
        Shape::Triple(1, 4, 4),
        vec![L::Conv(1, (2, 2), (1, 1), (0, 0), (1, 1), Linear), L::Pool((2, 2), (2, 2)), L::Dense(2, Sigmoid, true)],
        64,
    ));
    out.push(net_case(
        "dense-conv-dense",
        Shape::Single(3),
        vec![L::Dense(4, Linear, true), L::Conv(2, (2, 2), (1, 1), (1, 1), (1, 1), ReLU), L::Dense(2, Linear, false)],
        16,
    ));
    out.push(net_case(
        "deconv-conv-dense",
        Shape::Triple(1, 2, 2),
        vec![L::Deconv(1, (2, 2), (2, 2), (0, 0), Linear), L::Conv(1, (3, 3), (1, 1), (0, 0), (1, 1), Tanh), L::Dense(1, Linear, true)],
        16,
    ));
    if full {
        out.push(net_case(
            "conv-conv-pool-dense-softmax",
            Shape::Triple(2, 4, 4),
            vec![
                L::Conv(2, (3, 3), (1, 1), (1, 1), (1, 1), Linear),
                L::Conv(1, (2, 2), (2, 2), (0, 0), (1, 1), Linear),
                L::Pool((2, 2), (1, 1)),
                L::Dense(3, Softmax, true),
            ],
            64,
        ));
        out.push(net_case(
            "dense-pool-deconv",
            Shape::Single(2),
            vec![L::Dense(9, Linear, false), L::Pool((2, 2), (1, 1)), L::Deconv(2, (2, 2), (1, 1), (0, 0), Linear)],
            4096,
        ));
    }
    out
}

