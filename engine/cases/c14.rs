//! C14 — reshaping and flattening preserve the row-major element sequence.
//!
//! Shapes are enumerated exhaustively up to the bound (they cannot be solver variables in a nested-`Vec`
//! tensor); every element is a symbolic value, so "element i of the output is element i of the input" is an
//! identity between DAG nodes that holds for all contents.

use super::*;

fn shapes(max: usize) -> Vec<(usize, usize, usize)> {
    let mut v = Vec::new();
    for c in 1..=max {
        for h in 1..=max {
            for w in 1..=max {
                v.push((c, h, w));
            }
        }
    }
    v
}

fn same_seq(ctx: &mut Ctx, role: &str, got: &[S], want: &[S]) {
    ctx.fact(&format!("{}-count", role), got.len() == want.len(), format!("{} vs {}", got.len(), want.len()));
    for (i, (g, w)) in got.iter().zip(want.iter()).enumerate() {
        ctx.claim(&format!("{}[{}]", role, i), Th::Fp, B::Same(*g, *w));
    }
}

fn shape_ok(ctx: &mut Ctx, role: &str, t: &Tensor, want: &[usize]) {
    let ok = dims(t) == want && shape_dims(&t.shape) == want && rectangular(t);
    ctx.fact(role, ok, format!("data {:?} recorded {:?} expected {:?}", dims(t), t.shape, want));
}

pub fn triple_case(c: usize, h: usize, w: usize, max: usize) -> Case {
    Case {
        id: format!("C14/triple/{}x{}x{}", c, h, w),
        property: "C14",
        family: "Tensor::{flatten,get_flat,get_triple,reshape}",
        class: "triple-source".into(),
        no_ties: false,
        max_paths: 4,
        run: Box::new(move |ctx| {
            let x = v3(ctx, "x", c, h, w);
            let seq = flat3(&x);
            let n = c * h * w;
            let t = t3(&x);
            shape_ok(ctx, "source-shape", &t, &[c, h, w]);
            // flatten / get_flat / as_triple
            let f = t.flatten();
            shape_ok(ctx, "flatten-shape", &f, &[n]);
            same_seq(ctx, "flatten", &elems(&f), &seq);
            same_seq(ctx, "get_flat", &t.get_flat(), &seq);
            same_seq(ctx, "get_triple", &flat3(&t.get_triple(&Shape::Triple(c, h, w))), &seq);
            // triple -> single
            let r = t.clone().reshape(Shape::Single(n));
            shape_ok(ctx, "reshape-to-single-shape", &r, &[n]);
            same_seq(ctx, "reshape-to-single", &elems(&r), &seq);
            // ... and back: identity
            let back = r.reshape(Shape::Triple(c, h, w));
            shape_ok(ctx, "there-and-back-shape", &back, &[c, h, w]);
            same_seq(ctx, "there-and-back", &elems(&back), &seq);
            // flat vector read as a triple by get_triple
            let g = f.get_triple(&Shape::Triple(c, h, w));
            ctx.fact("get_triple-from-flat-shape", g.len() == c && g[0].len() == h && g[0][0].len() == w, String::new());
            same_seq(ctx, "get_triple-from-flat", &flat3(&g), &seq);
            // every target triple shape
            for (c2, h2, w2) in shapes(max) {
                let n2 = c2 * h2 * w2;
                let src = t.clone();
                let res = ctx.catch(move |_| src.reshape(Shape::Triple(c2, h2, w2)));
                if n2 == n {
                    match res {
                        Ok(r2) => {
                            shape_ok(ctx, &format!("reshape-{}x{}x{}-shape", c2, h2, w2), &r2, &[c2, h2, w2]);
                            same_seq(ctx, &format!("reshape-{}x{}x{}", c2, h2, w2), &elems(&r2), &seq);
                            let b2 = r2.reshape(Shape::Triple(c, h, w));
                            same_seq(ctx, &format!("reshape-{}x{}x{}-and-back", c2, h2, w2), &elems(&b2), &seq);
                        }
                        Err(m) => ctx.fact(&format!("reshape-{}x{}x{}-accepted", c2, h2, w2), false, format!("equal element counts refused: {}", m)),
                    }
                } else {
                    ctx.fact(&format!("reshape-{}x{}x{}-refused", c2, h2, w2), res.is_err(), format!("{} elements reshaped to {} elements", n, n2));
                }
            }
            // single targets with a different count are refused
            for n2 in [n + 1, n.saturating_sub(1).max(1), 2 * n] {
                if n2 == n {
                    continue;
                }
                let src = t.clone();
                let res = ctx.catch(move |_| src.reshape(Shape::Single(n2)));
                ctx.fact(&format!("reshape-to-single{}-refused", n2), res.is_err(), format!("{} elements reshaped to a vector of {}", n, n2));
            }
        }),
    }
}

/// large tensors (thousands of elements, non-square maps): flatten, read-out, vector round trip, one 3-D target
pub fn big_case(c: usize, h: usize, w: usize) -> Case {
    Case {
        id: format!("C14/big/{}x{}x{}", c, h, w),
        property: "C14",
        family: "Tensor::{flatten,get_flat,get_triple,reshape}",
        class: "big".into(),
        no_ties: false,
        max_paths: 4,
        run: Box::new(move |ctx| {
            let x = v3(ctx, "x", c, h, w);
            let seq = flat3(&x);
            let n = c * h * w;
            let t = t3(&x);
            let f = t.flatten();
            shape_ok(ctx, "flatten-shape", &f, &[n]);
            same_seq(ctx, "flatten", &elems(&f), &seq);
            same_seq(ctx, "get_flat", &t.get_flat(), &seq);
            let r = t.clone().reshape(Shape::Single(n));
            shape_ok(ctx, "reshape-to-single-shape", &r, &[n]);
            same_seq(ctx, "reshape-to-single", &elems(&r), &seq);
            let back = r.reshape(Shape::Triple(c, h, w));
            shape_ok(ctx, "there-and-back-shape", &back, &[c, h, w]);
            same_seq(ctx, "there-and-back", &elems(&back), &seq);
            let r2 = t.clone().reshape(Shape::Triple(c, w, h));
            shape_ok(ctx, "reshape-hw-swapped-shape", &r2, &[c, w, h]);
            same_seq(ctx, "reshape-hw-swapped", &elems(&r2), &seq);
            let src = t.clone();
            let res = ctx.catch(move |_| src.reshape(Shape::Triple(c, h, w + 1)));
            ctx.fact("reshape-to-more-elements-refused", res.is_err(), String::new());
        }),
    }
}

pub fn single_case(n: usize, max: usize) -> Case {
    Case {
        id: format!("C14/single/{}", n),
        property: "C14",
        family: "Tensor::{flatten,get_flat,get_triple,reshape}",
        class: "single-source".into(),
        no_ties: false,
        max_paths: 4,
        run: Box::new(move |ctx| {
            let x = v1(ctx, "x", n);
            let t = t1(&x);
            shape_ok(ctx, "source-shape", &t, &[n]);
            same_seq(ctx, "flatten", &elems(&t.flatten()), &x);
            same_seq(ctx, "get_flat", &t.get_flat(), &x);
            let r = t.clone().reshape(Shape::Single(n));
            same_seq(ctx, "reshape-single-single", &elems(&r), &x);
            for (c2, h2, w2) in shapes(max) {
                let n2 = c2 * h2 * w2;
                let src = t.clone();
                let res = ctx.catch(move |_| src.reshape(Shape::Triple(c2, h2, w2)));
                if n2 == n {
                    match res {
                        Ok(r2) => {
                            shape_ok(ctx, &format!("reshape-{}x{}x{}-shape", c2, h2, w2), &r2, &[c2, h2, w2]);
                            same_seq(ctx, &format!("reshape-{}x{}x{}", c2, h2, w2), &elems(&r2), &x);
                            let b2 = r2.reshape(Shape::Single(n));
                            shape_ok(ctx, &format!("reshape-{}x{}x{}-and-back-shape", c2, h2, w2), &b2, &[n]);
                            same_seq(ctx, &format!("reshape-{}x{}x{}-and-back", c2, h2, w2), &elems(&b2), &x);
                        }
                        Err(m) => ctx.fact(&format!("reshape-{}x{}x{}-accepted", c2, h2, w2), false, format!("equal element counts refused: {}", m)),
                    }
                } else {
                    ctx.fact(&format!("reshape-{}x{}x{}-refused", c2, h2, w2), res.is_err(), format!("{} elements reshaped to {} elements", n, n2));
                }
            }
        }),
    }
}

/// Negative control: the oracle sequence is column-major.
pub fn control_case() -> Case {
    Case {
        id: "C14/control/column-major-oracle".into(),
        property: "C14",
        family: "control",
        class: "control".into(),
        no_ties: false,
        max_paths: 4,
        run: Box::new(move |ctx| {
            let x = v3(ctx, "x", 1, 2, 2);
            let t = t3(&x);
            let f = elems(&t.flatten());
            ctx.claim("flatten[1]", Th::Fp, B::Same(f[1], x[0][1][0]));
        }),
    }
}

pub fn cases(tier: Tier, _seed: u64) -> Vec<Case> {
    let max = if tier == Tier::Thorough { 4 } else { 3 };
    let mut out = Vec::new();
    for (c, h, w) in shapes(max) {
        out.push(triple_case(c, h, w, max));
    }
    let flats: Vec<usize> = if tier == Tier::Thorough { (1..=64).collect() } else { vec![1, 2, 3, 4, 6, 8, 9, 12, 16, 18, 27, 5, 7] };
    for n in flats {
        out.push(single_case(n, max));
    }
    // beyond the small lattice: thousands of elements, height != width in both directions
    for (c, h, w) in if tier == Tier::Thorough { vec![(2usize, 32usize, 64usize), (2, 64, 32), (1, 70, 65), (3, 40, 41)] } else { vec![(2, 32, 64), (2, 64, 32)] } {
        out.push(big_case(c, h, w));
    }
    out.push(control_case());
    out
}
