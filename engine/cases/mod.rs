//! Shared case library. This file (and its sub-modules) is compiled twice:
//!  * in `engine/harness` against the *shadow* crate (every `f32` is `symrt::Sf32`): the cases run
//!    symbolically and every claim becomes an SMT obligation;
//!  * in `engine/replay` against the *real* crate (`S = f32`): the same cases run natively on a
//!    solver model (replay of counterexamples) or on seeded inputs (translator validation).
//! The including crate provides `S`, `lit`, `ite_lt`, `Ctx` (see `ctx.rs` in each crate).

#![allow(dead_code)]

pub use crate::ctx::{fresh, ite_lt, lit, Ctx, S};
pub use neurons::activation::Activation;
pub use neurons::feedback::Accumulation;
pub use neurons::network::verif as hooks;
pub use neurons::network::{Layer, Network};
pub use neurons::objective::Objective;
pub use neurons::tensor::{Data, Shape, Tensor};

pub mod util;
pub use util::*;
pub mod net;
pub use net::*;

pub mod c01;
pub mod c02;
pub mod c03;
pub mod c04;
pub mod c05;
pub mod c06;
pub mod c07;
pub mod c08;
pub mod c09;
pub mod c10;
pub mod c11;
pub mod c12;
pub mod c13;
pub mod c14;
pub mod c15;
pub mod c16;
pub mod c17;

/// Boolean formulas over scalars; the claim language shared by both modes.
#[derive(Clone)]
pub enum B {
    True,
    Lt(S, S),
    Le(S, S),
    /// numeric equality (`=` on reals, `fp.eq` on floats)
    Eq(S, S),
    /// identity of the value: `=` in both theories (floats: same bits, one NaN, -0 ≠ +0)
    Same(S, S),
    /// the same Float32 value up to the sign of zero: `(or (= a b) (fp.eq a b))` (NaN only equals NaN)
    Ident(S, S),
    IsNan(S),
    IsInf(S),
    Not(Box<B>),
    And(Vec<B>),
    Or(Vec<B>),
}

impl B {
    pub fn not(self) -> B {
        B::Not(Box::new(self))
    }
    pub fn finite(x: S) -> B {
        B::And(vec![B::IsNan(x).not(), B::IsInf(x).not()])
    }
    pub fn within(x: S, lo: S, hi: S) -> B {
        B::And(vec![B::Le(lo, x), B::Le(x, hi)])
    }
    pub fn implies(self, other: B) -> B {
        B::Or(vec![self.not(), other])
    }
}

#[derive(Clone, Copy, PartialEq, Eq, Debug)]
pub enum Th {
    Real,
    Fp,
}

#[derive(Clone, Copy, PartialEq, Eq, Debug)]
pub enum Tier {
    Quick,
    Thorough,
}

pub struct Case {
    /// unique id, e.g. `C02/conv/i1x4x4_f2_k2x2_s1x1_p0x0_d1x1/linear/triple`
    pub id: String,
    pub property: &'static str,
    /// family of the case (the function under test), e.g. `Convolution::forward`
    pub family: &'static str,
    /// configuration class used to key known findings, e.g. `stride>1`
    pub class: String,
    /// "away from kinks and ties" (gradient properties)
    pub no_ties: bool,
    pub max_paths: usize,
    pub run: Box<dyn Fn(&mut Ctx)>,
}

/// Deterministic 64-bit mix (for seeded subset selection).
pub fn mix(mut x: u64) -> u64 {
    x ^= x >> 33;
    x = x.wrapping_mul(0xff51afd7ed558ccd);
    x ^= x >> 33;
    x = x.wrapping_mul(0xc4ceb9fe1a85ec53);
    x ^= x >> 33;
    x
}

pub fn hash_str(s: &str) -> u64 {
    let mut h: u64 = 0xcbf29ce484222325;
    for b in s.bytes() {
        h ^= b as u64;
        h = h.wrapping_mul(0x100000001b3);
    }
    h
}

/// All cases of a property for a tier. `seed` rotates the quick-tier subset.
pub fn select(property: &str, tier: Tier, seed: u64) -> Vec<Case> {
    // a configuration that is both picked by the seeded sampler and listed explicitly is one case
    let mut seen = std::collections::HashSet::new();
    select_all(property, tier, seed).into_iter().filter(|c| seen.insert(c.id.clone())).collect()
}

fn select_all(property: &str, tier: Tier, seed: u64) -> Vec<Case> {
    match property {
        "C01" => c01::cases(tier, seed),
        "C02" => c02::cases(tier, seed),
        "C03" => c03::cases(tier, seed),
        "C04" => c04::cases(tier, seed),
        "C05" => c05::cases(tier, seed),
        "C06" => c06::cases(tier, seed),
        "C07" => c07::cases(tier, seed),
        "C08" => c08::cases(tier, seed),
        "C09" => c09::cases(tier, seed),
        "C10" => c10::cases(tier, seed),
        "C11" => c11::cases(tier, seed),
        "C12" => c12::cases(tier, seed),
        "C13" => c13::cases(tier, seed),
        "C14" => c14::cases(tier, seed),
        "C15" => c15::cases(tier, seed),
        "C16" => c16::cases(tier, seed),
        "C17" => c17::cases(tier, seed),
        _ => Vec::new(),
    }
}

pub const PROPERTIES: &[&str] = &["C01", "C02", "C03", "C04", "C05", "C06", "C07", "C08", "C09", "C10", "C11", "C12", "C13", "C14", "C15", "C16", "C17"];
