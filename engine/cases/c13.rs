//! C13 — early stopping and the returned histories obey their contract.
//!
//! `Network::validate` is stubbed (hook) to return fresh symbolic `(loss_e, acc_e)`, so the validation-loss
//! trajectory is a free symbolic sequence; `Optimizer::update` is stubbed to a no-op (the weights are irrelevant
//! here). Every `<=` of the stopping rule forks; every ordering (incl. plateaus) is a path.

use super::*;
use std::cell::RefCell;
use std::rc::Rc;

pub fn stop_case(epochs: usize, tol: usize, with_validation: bool) -> Case {
    stop_case_th(epochs, tol, with_validation, Th::Real)
}

/// `th` = Float32: the trajectory ranges over every single-precision value except NaN — infinite losses (an overflowing
/// objective) included, where `a - b` is NaN although `a` and `b` compare fine. NaN losses are outside the claim: "strictly
/// increased" is not defined for them.
pub fn stop_case_th(epochs: usize, tol: usize, with_validation: bool, th: Th) -> Case {
    stop_case_print(epochs, tol, with_validation, th, None)
}

/// `print`: the progress-printing interval handed to `learn` — it must not influence what is returned
pub fn stop_case_print(epochs: usize, tol: usize, with_validation: bool, th: Th, print: Option<i32>) -> Case {
    Case {
        id: format!("C13/epochs{}/tolerance{}/{}{}{}", epochs, tol, if with_validation { "validation" } else { "no-validation" }, if th == Th::Fp { "/floats-incl-inf" } else { "" }, match print { Some(p) => format!("/print{}", p), None => String::new() }),
        property: "C13",
        family: "Network::learn (early stopping)",
        class: if with_validation { "validation".into() } else { "no-validation".into() },
        no_ties: false,
        max_paths: 1 << 14,
        run: Box::new(move |ctx| {
            let mut net = build_net(Shape::Single(2), &[L::Dense(1, Act::Linear, true)]);
            if th == Th::Fp {
                ctx.fp_bound = Some(f32::INFINITY);
            }
            let xs = vec![t1(&vec![lit(0.5), lit(-0.25)]), t1(&vec![lit(1.0), lit(0.75)])];
            let ts = vec![t1(&vec![lit(0.25)]), t1(&vec![lit(-0.5)])];
            let (xr, tr): (Vec<&Tensor>, Vec<&Tensor>) = (xs.iter().collect(), ts.iter().collect());
            // stubs: validation returns the next pair of the free trajectory; optimizer steps do nothing
            let vl: V1 = (0..epochs).map(|e| ctx.var(&format!("vloss{}", e))).collect();
            let va: V1 = (0..epochs).map(|e| ctx.var(&format!("vacc{}", e))).collect();
            let calls = Rc::new(RefCell::new(0usize));
            let (c2, vl2, va2) = (calls.clone(), vl.clone(), va.clone());
            hooks::set_validate_stub(Some(Box::new(move |_n, _tol| {
                let k = *c2.borrow();
                *c2.borrow_mut() += 1;
                (vl2[k.min(vl2.len() - 1)], va2[k.min(va2.len() - 1)])
            })));
            hooks::set_update_stub(Some(Box::new(|_, _, _, _, _, _| {})));
            let r = ctx.catch(|_| {
                if with_validation {
                    net.learn(&xr, &tr, Some((&xr, &tr, tol as i32)), 1, epochs as i32, print)
                } else {
                    net.learn(&xr, &tr, None, 1, epochs as i32, print)
                }
            });
            hooks::set_validate_stub(None);
            hooks::set_update_stub(None);
            let (tl, rvl, rva) = match r {
                Ok(x) => x,
                Err(m) => {
                    ctx.fact("learn-returns", false, m);
                    return;
                }
            };
            let ran = tl.len();
            let ncalls = *calls.borrow();
            if !with_validation {
                ctx.fact("all-epochs-run", ran == epochs, format!("{} of {}", ran, epochs));
                ctx.fact("no-validation-history", rvl.is_empty() && rva.is_empty() && ncalls == 0, format!("{} {}", rvl.len(), rva.len()));
                return;
            }
            ctx.fact("history-lengths", rvl.len() == ran && rva.len() == ran && ncalls == ran && ran >= 1 && ran <= epochs, format!("train {} val-loss {} val-acc {} validate-calls {}", ran, rvl.len(), rva.len(), ncalls));
            for e in 0..ran.min(rvl.len()).min(rva.len()) {
                ctx.claim(&format!("val-loss-history[{}]", e), th, if th == Th::Fp { B::Same(rvl[e], vl[e]) } else { B::Eq(rvl[e], vl[e]) });
                ctx.claim(&format!("val-acc-history[{}]", e), th, if th == Th::Fp { B::Same(rva[e], va[e]) } else { B::Eq(rva[e], va[e]) });
            }
            // stop(e) (1-based): more than `tol` epochs have run and the last `tol` recorded losses strictly increase
            let stop = |e: usize| -> B {
                if e <= tol {
                    return B::True.not();
                }
                B::And(((e - tol)..(e - 1)).map(|i| B::Lt(vl[i], vl[i + 1])).collect())
            };
            // "stops only if": stopping early at `ran` requires stop(ran)
            if ran < epochs {
                ctx.claim("stops-only-if-increasing", th, stop(ran));
            }
            // "never continues past": no earlier epoch satisfied the rule
            let earlier: Vec<B> = (1..ran).map(|e| stop(e).not()).collect();
            ctx.claim("never-continues-past-first-stop", th, B::And(earlier));
        }),
    }
}

/// Negative control: the specification window is one epoch too short.
pub fn control_case() -> Case {
    let mut c = stop_case(4, 3, true);
    c.id = "C13/control/window-one-epoch-too-short".into();
    c.family = "control";
    c.class = "control".into();
    let inner = c.run;
    c.run = Box::new(move |ctx| {
        // same run, but claim that training always uses the whole budget (false on rising trajectories)
        inner(ctx);
        let v: V1 = (0..4).map(|e| ctx.var(&format!("vloss{}", e))).collect();
        ctx.claim("wrong-claim", Th::Real, B::Lt(v[1], v[2]).not());
    });
    c
}

pub fn cases(tier: Tier, _seed: u64) -> Vec<Case> {
    let full = tier == Tier::Thorough;
    let mut out = Vec::new();
    let emax = if full { 8 } else { 6 };
    for e in 1..=emax {
        for tol in 1..=4usize {
            if !full && e < 3 && tol > 2 {
                continue;
            }
            out.push(stop_case(e, tol, true));
        }
        out.push(stop_case(e, 2, false));
    }
    // a progress-printing interval (every 2nd / 5th epoch, or never within the budget) changes nothing
    for (e, tol, p) in if full { vec![(5usize, 2usize, 2i32), (5, 2, 5), (6, 3, 4), (6, 3, 100), (4, 1, 3), (3, 2, 1)] } else { vec![(5, 2, 5), (6, 3, 4), (4, 2, 100)] } {
        out.push(stop_case_print(e, tol, true, Th::Real, Some(p)));
    }
    out.push(stop_case_print(3, 2, false, Th::Real, Some(2)));
    // the same contract over Float32 trajectories including +inf / -inf
    for (e, tol) in if full { vec![(4usize, 2usize), (5, 2), (5, 3), (6, 3), (6, 4), (3, 1)] } else { vec![(4, 2), (5, 3), (3, 1)] } {
        out.push(stop_case_th(e, tol, true, Th::Fp));
    }
    out.push(control_case());
    out
}
