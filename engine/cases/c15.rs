//! C15 — element-wise tensor arithmetic is exact, rank-generic and shape-checked.
//!
//! Single operations (add, sub, mul, div by scalar, outer product, transpose, clamp) are compared with the one
//! IEEE operation on the operand elements in the Float32 theory; operations that sum or chain (mean, scaled
//! Hadamard, matrix-vector product) are compared with their definition over the reals.

use super::*;

#[derive(Clone, Copy, Debug, PartialEq)]
pub enum Rank {
    R1(usize),
    R2(usize, usize),
    R3(usize, usize, usize),
    R4(usize, usize, usize, usize),
}

impl Rank {
    fn tag(&self) -> String {
        match self {
            Rank::R1(a) => format!("{}", a),
            Rank::R2(a, b) => format!("{}x{}", a, b),
            Rank::R3(a, b, c) => format!("{}x{}x{}", a, b, c),
            Rank::R4(a, b, c, d) => format!("{}x{}x{}x{}", a, b, c, d),
        }
    }
    fn dims(&self) -> Vec<usize> {
        match *self {
            Rank::R1(a) => vec![a],
            Rank::R2(a, b) => vec![a, b],
            Rank::R3(a, b, c) => vec![a, b, c],
            Rank::R4(a, b, c, d) => vec![a, b, c, d],
        }
    }
    fn make(&self, ctx: &mut Ctx, p: &str) -> Tensor {
        match *self {
            Rank::R1(a) => t1(&v1(ctx, p, a)),
            Rank::R2(a, b) => t2(&v2(ctx, p, a, b)),
            Rank::R3(a, b, c) => t3(&v3(ctx, p, a, b, c)),
            Rank::R4(a, b, c, d) => Tensor::quadruple(v4(ctx, p, a, b, c, d)),
        }
    }
}

#[derive(Clone, Copy, Debug, PartialEq)]
pub enum Op {
    Add,
    Sub,
    Mul,
    DivScalar,
    Hadamard,
    Mean(usize),
    Clamp,
}

impl Op {
    fn name(&self) -> String {
        match self {
            Op::Add => "add".into(),
            Op::Sub => "sub".into(),
            Op::Mul => "mul".into(),
            Op::DivScalar => "div_scalar".into(),
            Op::Hadamard => "hadamard".into(),
            Op::Mean(k) => format!("mean{}", k),
            Op::Clamp => "clamp".into(),
        }
    }
}

pub fn elementwise_case(op: Op, rank: Rank) -> Case {
    Case {
        id: format!("C15/{}/{}", op.name(), rank.tag()),
        property: "C15",
        family: "Tensor element-wise ops",
        class: op.name(),
        no_ties: false,
        max_paths: 8,
        run: Box::new(move |ctx| {
            let a = rank.make(ctx, "a");
            let ea = elems(&a);
            let want_dims = rank.dims();
            let check_shape = |ctx: &mut Ctx, r: &Tensor| {
                ctx.fact("shape-unchanged", dims(r) == want_dims && shape_dims(&r.shape) == want_dims && rectangular(r), format!("{:?} / {:?}", dims(r), r.shape));
            };
            match op {
                Op::Add | Op::Sub | Op::Mul => {
                    let b = rank.make(ctx, "b");
                    let eb = elems(&b);
                    let mut r = a.clone();
                    match op {
                        Op::Add => r.add_inplace(&b),
                        Op::Sub => r.sub_inplace(&b),
                        _ => r.mul_inplace(&b),
                    }
                    check_shape(ctx, &r);
                    let er = elems(&r);
                    ctx.fact("count", er.len() == ea.len(), String::new());
                    for i in 0..ea.len().min(er.len()) {
                        let want = match op {
                            Op::Add => ea[i] + eb[i],
                            Op::Sub => ea[i] - eb[i],
                            _ => ea[i] * eb[i],
                        };
                        ctx.claim(&format!("elem[{}]", i), Th::Fp, B::Same(er[i], want));
                    }
                    // the other operand is left alone
                    for (i, (x, y)) in elems(&b).iter().zip(eb.iter()).enumerate() {
                        ctx.claim(&format!("operand[{}]", i), Th::Fp, B::Same(*x, *y));
                    }
                }
                Op::DivScalar => {
                    let s = ctx.var("s");
                    let mut r = a.clone();
                    r.div_scalar_inplace(s);
                    check_shape(ctx, &r);
                    let er = elems(&r);
                    for i in 0..ea.len().min(er.len()) {
                        ctx.claim(&format!("elem[{}]", i), Th::Fp, B::Same(er[i], ea[i] / s));
                    }
                }
                Op::Hadamard => {
                    let b = rank.make(ctx, "b");
                    let eb = elems(&b);
                    let s = ctx.var("s");
                    let mut r = a.clone();
                    r.hadamard(&b, s);
                    check_shape(ctx, &r);
                    let er = elems(&r);
                    for i in 0..ea.len().min(er.len()) {
                        ctx.eq(&format!("elem[{}]", i), er[i], s * (eb[i] * ea[i]));
                        // IEEE single precision, in the documented order: the product of the elements, then times the scalar
                        ctx.claim(&format!("elem-ieee[{}]", i), Th::Fp, B::Same(er[i], (ea[i] * eb[i]) * s));
                    }
                }
                Op::Mean(k) => {
                    let others: Vec<Tensor> = (0..k).map(|j| rank.make(ctx, &format!("o{}", j))).collect();
                    let eo: Vec<V1> = others.iter().map(elems).collect();
                    let refs: Vec<&Tensor> = others.iter().collect();
                    let mut r = a.clone();
                    r.mean_inplace(&refs);
                    check_shape(ctx, &r);
                    let er = elems(&r);
                    for i in 0..ea.len().min(er.len()) {
                        let mut sum = ea[i];
                        for o in eo.iter().rev() {
                            sum = o[i] + sum;
                        }
                        ctx.eq(&format!("elem[{}]", i), er[i], sum / lit((k + 1) as f32));
                    }
                    // rank-generic in IEEE single precision: every rank rounds like the 1-D operation on the same elements
                    // (for one other operand that is `(a + o) / 2`, up to the sign of a zero sum)
                    let flat_others: Vec<Tensor> = eo.iter().map(|o| t1(o)).collect();
                    let flat_refs: Vec<&Tensor> = flat_others.iter().collect();
                    let mut fr = t1(&ea);
                    fr.mean_inplace(&flat_refs);
                    let efr = elems(&fr);
                    for i in 0..ea.len().min(er.len()) {
                        ctx.claim(&format!("elem-as-rank1[{}]", i), Th::Fp, B::Same(er[i], efr[i]));
                        if k == 1 {
                            ctx.claim(&format!("elem-ieee[{}]", i), Th::Fp, B::Ident(er[i], (ea[i] + eo[0][i]) / lit(2.0)));
                        }
                    }
                }
                Op::Clamp => {
                    let lo = ctx.var("lo");
                    let hi = ctx.var("hi");
                    ctx.assume(B::Le(lo, hi));
                    let r = a.clone().clamp(lo, hi);
                    check_shape(ctx, &r);
                    let er = elems(&r);
                    for i in 0..ea.len().min(er.len()) {
                        ctx.claim(&format!("in-interval[{}]", i), Th::Fp, B::within(er[i], lo, hi));
                        ctx.claim(&format!("elem[{}]", i), Th::Fp, B::Eq(er[i], ea[i].max(lo).min(hi)));
                    }
                }
            }
        }),
    }
}

fn mk(rank: Rank, fill: f32) -> Tensor {
    let d = rank.dims();
    let n: usize = d.iter().product();
    let v: V1 = (0..n).map(|i| lit(fill + i as f32)).collect();
    match rank {
        Rank::R1(_) => t1(&v),
        Rank::R2(_, b) => t2(&v.chunks(b).map(|r| r.to_vec()).collect()),
        Rank::R3(_, b, c) => t3(&v.chunks(b * c).map(|m| m.chunks(c).map(|r| r.to_vec()).collect()).collect()),
        Rank::R4(_, b, c, dd) => Tensor::quadruple(v.chunks(b * c * dd).map(|f| f.chunks(c * dd).map(|m| m.chunks(dd).map(|r| r.to_vec()).collect()).collect()).collect()),
    }
}

/// Operands whose shapes differ are refused (concrete operands: the refusal does not depend on the contents).
pub fn mismatch_case() -> Case {
    Case {
        id: "C15/shape-mismatch".into(),
        property: "C15",
        family: "Tensor element-wise ops",
        class: "shape-mismatch".into(),
        no_ties: false,
        max_paths: 4,
        run: Box::new(move |ctx| {
            let ranks = [
                Rank::R1(2), Rank::R1(3), Rank::R2(2, 2), Rank::R2(2, 3), Rank::R2(3, 2), Rank::R3(1, 2, 2), Rank::R3(2, 2, 1), Rank::R3(2, 1, 2),
                Rank::R3(1, 2, 3), Rank::R4(1, 1, 2, 2), Rank::R4(2, 1, 1, 2), Rank::R4(1, 2, 2, 1), Rank::R1(4), Rank::R2(1, 4), Rank::R2(4, 1),
            ];
            for (i, ra) in ranks.iter().enumerate() {
                for (j, rb) in ranks.iter().enumerate() {
                    if i == j {
                        continue;
                    }
                    for op in ["add", "sub", "mul", "hadamard", "mean", "mean-second-operand", "mean-third-operand"] {
                        let (a, b, same) = (mk(*ra, 1.0), mk(*rb, 2.0), mk(*ra, 3.0));
                        let res = ctx.catch(move |_| {
                            let mut a = a;
                            match op {
                                "add" => a.add_inplace(&b),
                                "sub" => a.sub_inplace(&b),
                                "mul" => a.mul_inplace(&b),
                                "hadamard" => a.hadamard(&b, lit(1.0)),
                                "mean" => a.mean_inplace(&vec![&b]),
                                // the mismatching operand is not the first one
                                "mean-second-operand" => a.mean_inplace(&vec![&same, &b]),
                                _ => a.mean_inplace(&vec![&same, &same, &b]),
                            }
                        });
                        ctx.fact(&format!("{}-{}-vs-{}-refused", op, ra.tag(), rb.tag()), res.is_err(), "operands of different shapes were combined".into());
                    }
                }
            }
        }),
    }
}

pub fn nested_case() -> Case {
    Case {
        id: "C15/nested".into(),
        property: "C15",
        family: "Tensor element-wise ops",
        class: "nested".into(),
        no_ties: false,
        max_paths: 4,
        run: Box::new(move |ctx| {
            let parts_a = vec![t2(&v2(ctx, "a0", 2, 2)), t3(&v3(ctx, "a1", 1, 2, 2)), t1(&v1(ctx, "a2", 3))];
            let parts_b = vec![t2(&v2(ctx, "b0", 2, 2)), t3(&v3(ctx, "b1", 1, 2, 2)), t1(&v1(ctx, "b2", 3))];
            let (ea, eb): (V1, V1) = (parts_a.iter().flat_map(elems).collect(), parts_b.iter().flat_map(elems).collect());
            let mut a = Tensor::nested(parts_a.clone());
            a.add_inplace(&Tensor::nested(parts_b.clone()));
            let er = elems(&a);
            ctx.fact("nested-add-count", er.len() == ea.len() && dims(&a) == vec![3], String::new());
            for i in 0..ea.len().min(er.len()) {
                ctx.claim(&format!("nested-add[{}]", i), Th::Fp, B::Same(er[i], ea[i] + eb[i]));
            }
            let s = ctx.var("s");
            let mut d = Tensor::nested(parts_a.clone());
            d.div_scalar_inplace(s);
            let ed = elems(&d);
            ctx.fact("nested-div-count", ed.len() == ea.len(), String::new());
            for i in 0..ea.len().min(ed.len()) {
                ctx.claim(&format!("nested-div[{}]", i), Th::Fp, B::Same(ed[i], ea[i] / s));
            }
            // optional nesting: `None` slots stay `None`, `Some` slots add element-wise
            let oa = Tensor::nestedoptional(vec![Some(parts_a[0].clone()), None, Some(parts_a[2].clone())]);
            let ob = Tensor::nestedoptional(vec![Some(parts_b[0].clone()), None, Some(parts_b[2].clone())]);
            let mut o = oa.clone();
            o.add_inplace(&ob);
            let un = o.unnestedoptional();
            ctx.fact("optional-structure", un.len() == 3 && un[0].is_some() && un[1].is_none() && un[2].is_some(), String::new());
            let eo = elems(&o);
            let (xa, xb): (V1, V1) = (elems(&oa), elems(&ob));
            for i in 0..xa.len().min(eo.len()) {
                ctx.claim(&format!("optional-add[{}]", i), Th::Fp, B::Same(eo[i], xa[i] + xb[i]));
            }
            // optional lists with different Some/None patterns: a slot is added only where both sides hold a tensor, slot by slot
            let pa = Tensor::nestedoptional(vec![Some(parts_a[0].clone()), None, Some(parts_a[2].clone()), Some(parts_a[2].clone())]);
            let pb = Tensor::nestedoptional(vec![None, Some(parts_b[0].clone()), Some(parts_b[2].clone()), None]);
            let mut po = pa.clone();
            let res = ctx.catch(|_| po.add_inplace(&pb));
            ctx.fact("optional-different-patterns-accepted", res.is_ok(), format!("{:?}", res.err()));
            let un = po.unnestedoptional();
            ctx.fact("optional-different-patterns-structure", un.len() == 4 && un[0].is_some() && un[1].is_none() && un[2].is_some() && un[3].is_some(), String::new());
            if un.len() == 4 && un[0].is_some() && un[2].is_some() && un[3].is_some() {
                let (s0, s2, s3) = (elems(un[0].as_ref().unwrap()), elems(un[2].as_ref().unwrap()), elems(un[3].as_ref().unwrap()));
                let (a0, a2, b2) = (elems(&parts_a[0]), elems(&parts_a[2]), elems(&parts_b[2]));
                for i in 0..a0.len().min(s0.len()) {
                    ctx.claim(&format!("optional-patterns-slot0[{}]", i), Th::Fp, B::Same(s0[i], a0[i]));
                }
                for i in 0..a2.len().min(s2.len()) {
                    ctx.claim(&format!("optional-patterns-slot2[{}]", i), Th::Fp, B::Same(s2[i], a2[i] + b2[i]));
                    ctx.claim(&format!("optional-patterns-slot3[{}]", i), Th::Fp, B::Same(s3[i], a2[i]));
                }
            }
            // nested lists refuse operands whose shapes differ — in the outer length or in any inner tensor
            let k = |v: f32, n: usize| t1(&(0..n).map(|i| lit(v + i as f32)).collect());
            let m = |v: f32, r: usize, c: usize| t2(&(0..r).map(|i| (0..c).map(|j| lit(v + (i * c + j) as f32)).collect()).collect());
            let c3 = |v: f32, a: usize, b: usize, c: usize| t3(&(0..a).map(|i| (0..b).map(|j| (0..c).map(|l| lit(v + (i * b * c + j * c + l) as f32)).collect()).collect()).collect());
            let pairs: Vec<(&str, Tensor, Tensor)> = vec![
                ("outer-length", Tensor::nested(vec![k(1.0, 2), k(2.0, 2)]), Tensor::nested(vec![k(1.0, 2)])),
                ("inner-vector-3-vs-2", Tensor::nested(vec![k(1.0, 2), k(2.0, 3)]), Tensor::nested(vec![k(1.0, 2), k(2.0, 2)])),
                ("inner-matrix-2x3-vs-2x2", Tensor::nested(vec![m(1.0, 2, 3)]), Tensor::nested(vec![m(1.0, 2, 2)])),
                ("inner-matrix-2x2-vs-3x2", Tensor::nested(vec![k(0.0, 1), m(1.0, 2, 2)]), Tensor::nested(vec![k(0.0, 1), m(1.0, 3, 2)])),
                ("inner-3d-1x2x2-vs-1x2x3", Tensor::nested(vec![c3(1.0, 1, 2, 2)]), Tensor::nested(vec![c3(1.0, 1, 2, 3)])),
                ("optional-inner-vector-3-vs-2", Tensor::nestedoptional(vec![Some(k(1.0, 3)), None]), Tensor::nestedoptional(vec![Some(k(1.0, 2)), None])),
            ];
            for (name, a, b) in pairs.into_iter() {
                let res = ctx.catch(move |_| {
                    let mut a = a;
                    a.add_inplace(&b);
                });
                ctx.fact(&format!("nested-add-{}-refused", name), res.is_err(), "nested operands of different shapes were combined".into());
            }
        }),
    }
}

pub fn linear_algebra_case(r: usize, c: usize) -> Case {
    Case {
        id: format!("C15/linalg/{}x{}", r, c),
        property: "C15",
        family: "Tensor::{product,dot,transpose}",
        class: "linalg".into(),
        no_ties: false,
        max_paths: 4,
        run: Box::new(move |ctx| {
            let m = v2(ctx, "m", r, c);
            let x = v1(ctx, "x", c);
            let y = v1(ctx, "y", r);
            // matrix-vector product
            let d = t2(&m).dot(&t1(&x));
            ctx.fact("dot-shape", dims(&d) == vec![r] && shape_dims(&d.shape) == vec![r], format!("{:?}", dims(&d)));
            let ed = elems(&d);
            for i in 0..r.min(ed.len()) {
                let terms: V1 = (0..c).map(|j| m[i][j] * x[j]).collect();
                ctx.eq(&format!("dot[{}]", i), ed[i], rsum(&terms));
            }
            // outer product
            let p = t1(&y).product(&t1(&x));
            ctx.fact("product-shape", dims(&p) == vec![r, c] && shape_dims(&p.shape) == vec![r, c] && rectangular(&p), format!("{:?}", dims(&p)));
            if dims(&p) == vec![r, c] {
                let pd = d2(&p);
                for i in 0..r {
                    for j in 0..c {
                        ctx.claim(&format!("product[{}][{}]", i, j), Th::Fp, B::Same(pd[i][j], y[i] * x[j]));
                    }
                }
            }
            // transpose
            let t = t2(&m).transpose();
            ctx.fact("transpose-shape", dims(&t) == vec![c, r] && shape_dims(&t.shape) == vec![c, r] && rectangular(&t), format!("{:?}", dims(&t)));
            if dims(&t) == vec![c, r] {
                let td = d2(&t);
                for i in 0..r {
                    for j in 0..c {
                        ctx.claim(&format!("transpose[{}][{}]", j, i), Th::Fp, B::Same(td[j][i], m[i][j]));
                    }
                }
            }
        }),
    }
}

/// Negative control: subtraction compared with the reversed operands.
pub fn control_case() -> Case {
    Case {
        id: "C15/control/sub-with-reversed-operands".into(),
        property: "C15",
        family: "control",
        class: "control".into(),
        no_ties: false,
        max_paths: 4,
        run: Box::new(move |ctx| {
            let (a, b) = (v1(ctx, "a", 1), v1(ctx, "b", 1));
            let mut r = t1(&a);
            r.sub_inplace(&t1(&b));
            ctx.claim("elem[0]", Th::Fp, B::Same(elems(&r)[0], b[0] - a[0]));
        }),
    }
}

pub fn cases(tier: Tier, _seed: u64) -> Vec<Case> {
    let full = tier == Tier::Thorough;
    let mut ranks = vec![Rank::R1(3), Rank::R2(2, 2), Rank::R3(1, 2, 2), Rank::R4(1, 2, 1, 2)];
    if full {
        ranks.extend([Rank::R1(1), Rank::R2(3, 2), Rank::R2(1, 3), Rank::R3(2, 1, 3), Rank::R3(2, 2, 2), Rank::R4(2, 1, 2, 2), Rank::R4(1, 1, 1, 1)]);
    }
    let mut out = Vec::new();
    for r in ranks.iter() {
        let mut ops = vec![Op::Add, Op::Sub, Op::Mul, Op::DivScalar, Op::Hadamard, Op::Mean(1), Op::Mean(2), Op::Clamp];
        if full {
            ops.push(Op::Mean(3));
        }
        for op in ops {
            out.push(elementwise_case(op, *r));
        }
    }
    out.push(mismatch_case());
    out.push(nested_case());
    for (r, c) in if full { vec![(1, 1), (2, 3), (3, 2), (3, 3)] } else { vec![(2, 3), (1, 1)] } {
        out.push(linear_algebra_case(r, c));
    }
    out.push(control_case());
    out
}
