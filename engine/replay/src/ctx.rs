//! Concrete implementation of the case context (real crate, `S = f32`).

use crate::cases::{Th, B};
use std::collections::HashMap;

pub type S = f32;

pub fn lit(x: f32) -> S {
    x
}
pub fn ite_lt(a: S, b: S, t: S, e: S) -> S {
    if a < b {
        t
    } else {
        e
    }
}

#[derive(Clone, PartialEq)]
pub enum Mode {
    /// variables come from a solver model (missing ones get a seeded default)
    Model,
    /// all variables are seeded constants (translator validation)
    Seeded(u64),
}

thread_local! {
    static CURRENT: std::cell::RefCell<(Option<u64>, HashMap<String, f32>, u64, (f32, f32))> = std::cell::RefCell::new((None, HashMap::new(), 7, (0.25, 0.75)));
}

/// A variable by name, usable where no `Ctx` is at hand (stub closures registered with the library).
pub fn fresh(name: &str) -> S {
    CURRENT.with(|c| {
        let c = c.borrow();
        match c.0 {
            Some(seed) => seeded(seed, name, -2.0, 2.0),
            None => match c.1.get(name) {
                Some(v) => *v,
                None => seeded(c.2, name, (c.3).0, (c.3).1),
            },
        }
    })
}

/// keep the thread-local view used by `fresh` in step with the context
pub fn sync(ctx: &Ctx) {
    CURRENT.with(|c| {
        *c.borrow_mut() = (
            match ctx.mode {
                Mode::Seeded(k) => Some(k),
                Mode::Model => None,
            },
            ctx.model.clone(),
            ctx.default_seed,
            ctx.default_range,
        )
    });
}

#[derive(Clone, Debug)]
pub struct Record {
    pub role: String,
    pub kind: &'static str,
    pub ok: bool,
    pub detail: String,
    pub lhs: f32,
    /// for `grad` records: (loss value, variable name)
    pub grad: Option<(f32, String)>,
}

pub struct Ctx {
    pub mode: Mode,
    pub model: HashMap<String, f32>,
    pub records: Vec<Record>,
    pub assumes_ok: bool,
    pub fp_bound: Option<f32>,
    pub diff_mode: DiffMode,
    pub values: Vec<(String, u32)>,
    pub tol: f32,
    /// seed and range for variables the model does not mention
    pub default_seed: u64,
    pub default_range: (f32, f32),
}

#[derive(Clone, Copy, PartialEq)]
pub enum DiffMode {
    Generic,
    Aligned,
}

pub fn seeded(seed: u64, name: &str, lo: f32, hi: f32) -> f32 {
    let h = crate::cases::mix(crate::cases::hash_str(name) ^ crate::cases::mix(seed));
    let frac = (h % 4001) as f32 / 4000.0;
    lo + frac * (hi - lo)
}

pub fn eval(b: &B) -> bool {
    match b {
        B::True => true,
        B::Lt(x, y) => x < y,
        B::Le(x, y) => x <= y,
        B::Eq(x, y) => x == y,
        B::Same(x, y) => x.to_bits() == y.to_bits() || (x.is_nan() && y.is_nan()),
        B::Ident(x, y) => x.to_bits() == y.to_bits() || (x.is_nan() && y.is_nan()) || x == y,
        B::IsNan(x) => x.is_nan(),
        B::IsInf(x) => x.is_infinite(),
        B::Not(x) => !eval(x),
        B::And(xs) => xs.iter().all(eval),
        B::Or(xs) => xs.iter().any(eval),
    }
}

impl Ctx {
    pub fn new(mode: Mode, model: HashMap<String, f32>) -> Ctx {
        Ctx { mode, model, records: Vec::new(), assumes_ok: true, fp_bound: None, diff_mode: DiffMode::Generic, values: Vec::new(), tol: 1e-3, default_seed: 7, default_range: (0.25, 0.75) }
    }
    pub fn aligned_diff(&mut self, _on: bool) {}
    pub fn schedule(&mut self, _mode: &str) {}
    /// run `f` on a dedicated rayon pool of `n` worker threads
    pub fn with_threads<T: Send>(&mut self, n: usize, f: impl FnOnce() -> T + Send) -> T {
        rayon::ThreadPoolBuilder::new().num_threads(n).build().unwrap().install(f)
    }
    pub fn require(&mut self, ok: bool, what: &str) {
        if !ok {
            panic!("harness precondition failed: {}", what);
        }
    }
    pub fn symbolic(&self) -> bool {
        false
    }
    pub fn var(&mut self, name: &str) -> S {
        match &self.mode {
            Mode::Model => match self.model.get(name) {
                Some(v) => *v,
                None => seeded(self.default_seed, name, self.default_range.0, self.default_range.1),
            },
            Mode::Seeded(seed) => seeded(*seed, name, -2.0, 2.0),
        }
    }
    pub fn var_in(&mut self, name: &str, lo: f32, hi: f32) -> S {
        match &self.mode {
            Mode::Model => match self.model.get(name) {
                Some(v) => *v,
                None => seeded(self.default_seed, name, lo + 0.05 * (hi - lo), lo + 0.95 * (hi - lo)),
            },
            Mode::Seeded(seed) => seeded(*seed, name, lo, hi),
        }
    }
    pub fn assume(&mut self, b: B) {
        if !eval(&b) {
            self.assumes_ok = false;
        }
    }
    fn rec(&mut self, role: &str, kind: &'static str, ok: bool, detail: String, lhs: f32, grad: Option<(f32, String)>) {
        self.records.push(Record { role: role.to_string(), kind, ok, detail, lhs, grad });
    }
    pub fn eq(&mut self, role: &str, lhs: S, rhs: S) {
        if let Mode::Seeded(_) = self.mode {
            self.values.push((role.to_string(), lhs.to_bits()));
            return;
        }
        let scale = 1.0f32.max(lhs.abs()).max(rhs.abs());
        let ok = if lhs.is_finite() && rhs.is_finite() { (lhs - rhs).abs() <= self.tol * scale } else { (lhs.is_nan() && rhs.is_nan()) || lhs == rhs };
        let ok = ok || !self.assumes_ok;
        self.rec(role, "eq", ok, format!("lhs={:e} rhs={:e}", lhs, rhs), lhs, None);
    }
    pub fn grad(&mut self, role: &str, lhs: S, loss: S, var: &str) {
        if let Mode::Seeded(_) = self.mode {
            self.values.push((role.to_string(), lhs.to_bits()));
            return;
        }
        // decided by the driver through central differences on re-runs
        self.rec(role, "grad", true, String::new(), lhs, Some((loss, var.to_string())));
    }
    pub fn claim(&mut self, role: &str, _theory: Th, claim: B) {
        if let Mode::Seeded(_) = self.mode {
            return;
        }
        let ok = eval(&claim) || !self.assumes_ok;
        self.rec(role, "claim", ok, String::new(), 0.0, None);
    }
    pub fn observe(&mut self, role: &str, v: S) {
        if let Mode::Seeded(_) = self.mode {
            self.values.push((role.to_string(), v.to_bits()));
        }
    }
    pub fn extreme_values(&mut self) {}
    pub fn fact(&mut self, role: &str, ok: bool, detail: String) {
        self.rec(role, "fact", ok, detail, 0.0, None);
    }
    pub fn catch<T>(&mut self, f: impl FnOnce(&mut Ctx) -> T) -> Result<T, String> {
        let r = std::panic::catch_unwind(std::panic::AssertUnwindSafe(|| f(self)));
        match r {
            Ok(v) => Ok(v),
            Err(e) => Err(if let Some(s) = e.downcast_ref::<&str>() {
                s.to_string()
            } else if let Some(s) = e.downcast_ref::<String>() {
                s.clone()
            } else {
                "panic".to_string()
            }),
        }
    }
}
