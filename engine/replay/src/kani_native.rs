//! Native counterparts of the Kani harnesses (engine A): a Kani counterexample is decoded into the
//! `kani::any()` values in call order and the harness body is re-run on the real build, in this profile.

use neurons::activation::Activation;
use neurons::convolution::Convolution;
use neurons::deconvolution::Deconvolution;
use neurons::maxpool::Maxpool;
use neurons::network::{verif as hooks, Layer};
use neurons::random::Generator;
use neurons::tensor::Shape;

fn triple(s: &Shape) -> (usize, usize, usize) {
    match s {
        Shape::Triple(a, b, c) => (*a, *b, *c),
        _ => (usize::MAX, usize::MAX, usize::MAX),
    }
}

/// returns Err(description) if the property is violated natively
fn body(name: &str, v: &[u64]) -> Result<(), String> {
    let g = |i: usize| -> u64 { *v.get(i).unwrap_or(&0) };
    let f = |i: usize| -> f32 { f32::from_bits(g(i) as u32) };
    match name {
        "c18_generate_unit_all_states" | "c18_generate_any_seed" => {
            let mut gen = Generator::create(g(0));
            let a = gen.generate(0.0, 1.0);
            if !(a >= 0.0 && a <= 1.0) {
                return Err(format!("generate(0,1) = {:e}", a));
            }
            let b = gen.generate(-1.0, 1.0);
            if !(b >= -1.0 && b <= 1.0) {
                return Err(format!("generate(-1,1) = {:e}", b));
            }
            Ok(())
        }
        n if n.starts_with("c18_generate_minmax") => {
            let (min, max) = (f(1), f(2));
            let mut gen = Generator::create(g(0));
            let a = gen.generate(min, max);
            if !(a >= min && a <= max) {
                return Err(format!("generate({:e},{:e}) = {:e}", min, max, a));
            }
            Ok(())
        }
        "c18_shuffle_index_any_length" => {
            let len = g(1) as usize;
            let mut gen = Generator::create(g(0));
            let a = gen.generate(0.0, len as f32);
            if !(a >= 0.0 && a <= len as f32) {
                return Err(format!("generate(0,{}) = {:e}", len, a));
            }
            Ok(())
        }
        n if n.starts_with("c18_purity") => {
            let m = (1u64 << 31) - 1;
            let seed = if n == "c18_purity_multiples_of_modulus" { [0, m, 2 * m, 1000 * m, 4294967296 * m, 8589934588 * m][(g(0) as usize).min(5)] } else { g(0) };
            let (mut a, mut b) = (Generator::create(seed), Generator::create(seed));
            if a.generate(0.0, 1.0).to_bits() != b.generate(0.0, 1.0).to_bits() || a.generate(0.0, 1.0).to_bits() != b.generate(0.0, 1.0).to_bits() {
                return Err("two generators with the same seed diverge".into());
            }
            Ok(())
        }
        n if n.starts_with("c18_shuffle_len") => {
            let len: usize = n["c18_shuffle_len".len()..].parse().unwrap();
            let mut gen = Generator::create(g(0));
            let mut vals: Vec<usize> = (0..len).collect();
            gen.shuffle(&mut vals);
            let mut s = vals.clone();
            s.sort();
            if s != (0..len).collect::<Vec<usize>>() {
                return Err(format!("shuffle produced {:?}", vals));
            }
            Ok(())
        }
        "c08_flat_accept_conv" | "c08_flat_accept_deconv" | "c08_flat_accept_pool" => {
            let n = g(0) as usize;
            let layer = match name {
                "c08_flat_accept_conv" => Layer::Convolution(Convolution::create(Shape::Single(n), 1, &Activation::Linear, (1, 1), (1, 1), (0, 0), (1, 1), None)),
                "c08_flat_accept_deconv" => Layer::Deconvolution(Deconvolution::create(Shape::Single(n), 1, &Activation::Linear, (1, 1), (1, 1), (0, 0), None)),
                _ => Layer::Maxpool(Maxpool::create(Shape::Single(n), (1, 1), (1, 1))),
            };
            let (i, _) = hooks::shapes(&layer);
            let (c, h, w) = triple(&i);
            if !(c == 1 && h == w && h * w == n) {
                return Err(format!("flat size {} accepted and read as {}x{}x{}", n, c, h, w));
            }
            Ok(())
        }
        "c08_square_accepted_conv" | "c08_square_accepted_deconv" | "c08_square_accepted_pool" => {
            let r = g(0) as usize;
            let layer = match name {
                "c08_square_accepted_conv" => Layer::Convolution(Convolution::create(Shape::Single(r * r), 1, &Activation::Linear, (1, 1), (1, 1), (0, 0), (1, 1), None)),
                "c08_square_accepted_deconv" => Layer::Deconvolution(Deconvolution::create(Shape::Single(r * r), 1, &Activation::Linear, (1, 1), (1, 1), (0, 0), None)),
                _ => Layer::Maxpool(Maxpool::create(Shape::Single(r * r), (1, 1), (1, 1))),
            };
            let (i, o) = hooks::shapes(&layer);
            if !(triple(&i) == (1, r, r) && triple(&o) == (1, r, r)) {
                return Err(format!("{}*{} read as {:?} -> {:?}", r, r, i, o));
            }
            Ok(())
        }
        "c08_conv_shape" => {
            let (ic, ih, iw) = (g(0) as usize, g(1) as usize, g(2) as usize);
            let (kh, kw, sh, sw, ph, pw, dh, dw) = (g(3) as usize, g(4) as usize, g(5) as usize, g(6) as usize, g(7) as usize, g(8) as usize, g(9) as usize, g(10) as usize);
            let fl = g(11) as usize;
            let layer = Layer::Convolution(Convolution::create(Shape::Triple(ic, ih, iw), fl, &Activation::Linear, (kh, kw), (sh, sw), (ph, pw), (dh, dw), None));
            let (i, o) = hooks::shapes(&layer);
            let eh = (ih + 2 * ph - dh * (kh - 1) - 1) / sh + 1;
            let ew = (iw + 2 * pw - dw * (kw - 1) - 1) / sw + 1;
            if !(triple(&o) == (fl, eh, ew) && triple(&i) == (ic, ih, iw)) {
                return Err(format!("announced {:?} -> {:?}, formula ({}, {}, {})", i, o, fl, eh, ew));
            }
            Ok(())
        }
        "c08_deconv_shape" => {
            let (ic, ih, iw) = (g(0) as usize, g(1) as usize, g(2) as usize);
            let (kh, kw, sh, sw, ph, pw) = (g(3) as usize, g(4) as usize, g(5) as usize, g(6) as usize, g(7) as usize, g(8) as usize);
            let fl = g(9) as usize;
            let layer = Layer::Deconvolution(Deconvolution::create(Shape::Triple(ic, ih, iw), fl, &Activation::Linear, (kh, kw), (sh, sw), (ph, pw), None));
            let (i, o) = hooks::shapes(&layer);
            let want = (fl, (ih - 1) * sh + kh - 2 * ph, (iw - 1) * sw + kw - 2 * pw);
            if !(triple(&o) == want && triple(&i) == (ic, ih, iw)) {
                return Err(format!("announced {:?} -> {:?}, formula {:?}", i, o, want));
            }
            Ok(())
        }
        "c08_pool_shape" => {
            let (ic, ih, iw, kh, kw, sh, sw) = (g(0) as usize, g(1) as usize, g(2) as usize, g(3) as usize, g(4) as usize, g(5) as usize, g(6) as usize);
            let layer = Layer::Maxpool(Maxpool::create(Shape::Triple(ic, ih, iw), (kh, kw), (sh, sw)));
            let (i, o) = hooks::shapes(&layer);
            let want = (ic, (ih - kh) / sh + 1, (iw - kw) / sw + 1);
            if !(triple(&o) == want && triple(&i) == (ic, ih, iw)) {
                return Err(format!("announced {:?} -> {:?}, formula {:?}", i, o, want));
            }
            Ok(())
        }
        "c07_relu_every_finite_float" | "c07_leaky_relu_every_finite_float" | "c07_linear_every_finite_float" => {
            use neurons::activation::Function;
            use neurons::tensor::{Data, Tensor};
            let x = f(0);
            let act = match name {
                "c07_relu_every_finite_float" => Activation::ReLU,
                "c07_leaky_relu_every_finite_float" => Activation::LeakyReLU,
                _ => Activation::Linear,
            };
            let fun = Function::create(&act);
            let t = Tensor::single(vec![x]);
            let one = |t: &Tensor| match &t.data {
                Data::Single(v) if v.len() == 1 => v[0],
                _ => f32::NAN,
            };
            let (y, d) = (one(&fun.forward(&t)), one(&fun.backward(&t)));
            let (wy, wd) = match name {
                "c07_relu_every_finite_float" => (if x > 0.0 { x } else { 0.0 }, if x > 0.0 { 1.0 } else { 0.0 }),
                "c07_leaky_relu_every_finite_float" => (if x > 0.0 { x } else { 0.01 * x }, if x > 0.0 { 1.0 } else { 0.01 }),
                _ => (x, 1.0),
            };
            if !(y == wy && d == wd && y.is_finite()) {
                return Err(format!("x = {:e}: forward {:e} (expected {:e}), backward {:e} (expected {:e})", x, y, wy, d, wd));
            }
            Ok(())
        }
        other => Err(format!("NO-NATIVE-COUNTERPART {}", other)),
    }
}

pub fn run(name: &str, vals: &[u64], expect_reject_ok: bool) {
    let profile = if cfg!(debug_assertions) { "debug" } else { "release" };
    let r = std::panic::catch_unwind(|| body(name, vals));
    match r {
        Ok(Ok(())) => println!("KANI-REPLAY harness={} profile={} verdict=NOT-REPRODUCED", name, profile),
        Ok(Err(d)) if d.starts_with("NO-NATIVE-COUNTERPART") => println!("KANI-REPLAY harness={} profile={} verdict=NO-NATIVE-COUNTERPART", name, profile),
        Ok(Err(d)) => println!("KANI-REPLAY harness={} profile={} verdict=REPRODUCED detail=\"{}\"", name, profile, d),
        Err(e) => {
            let m = if let Some(s) = e.downcast_ref::<&str>() { s.to_string() } else if let Some(s) = e.downcast_ref::<String>() { s.clone() } else { "panic".into() };
            let first = m.lines().next().unwrap_or("").to_string();
            if expect_reject_ok && first.contains("must have a square output") {
                println!("KANI-REPLAY harness={} profile={} verdict=NOT-REPRODUCED detail=\"rejected as documented\"", name, profile);
            } else {
                println!("KANI-REPLAY harness={} profile={} verdict=REPRODUCED detail=\"panic: {}\"", name, profile, first);
            }
        }
    }
}
