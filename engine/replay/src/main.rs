//! Native replay: runs the shared cases on the REAL crate (feature `verif`).
//!
//! usage: replay --property P --tier T --seed N --case ID --role ROLE --model FILE
//!        replay --property P --tier T --seed N --seeded K [--shard i/n] --out FILE

mod ctx;
#[path = "../../cases/mod.rs"]
mod cases;

use cases::Tier;
use ctx::{Ctx, Mode, Record};
use std::collections::HashMap;
use std::io::Write;

fn esc(s: &str) -> String {
    let mut o = String::new();
    for ch in s.chars() {
        match ch {
            '"' => o.push_str("\\\""),
            '\\' => o.push_str("\\\\"),
            '\n' => o.push_str("\\n"),
            c if (c as u32) < 0x20 => o.push(' '),
            c => o.push(c),
        }
    }
    o
}

fn run_case(case: &cases::Case, model: &HashMap<String, f32>) -> (Vec<Record>, Option<String>, bool) {
    let mut ctx = Ctx::new(Mode::Model, model.clone());
    let r = ctx.catch(|ctx| (case.run)(ctx));
    (ctx.records.clone(), r.err(), ctx.assumes_ok)
}

fn main() {
    let a: Vec<String> = std::env::args().collect();
    let (mut property, mut tier, mut seed, mut case_id, mut role, mut model_file) = (String::new(), Tier::Quick, 0u64, String::new(), String::new(), String::new());
    let (mut seeded, mut out, mut shard) = (None::<u64>, None::<String>, (0usize, 1usize));
    let mut i = 1;
    while i < a.len() {
        match a[i].as_str() {
            "--property" => property = a[i + 1].clone(),
            "--tier" => tier = if a[i + 1] == "thorough" { Tier::Thorough } else { Tier::Quick },
            "--seed" => seed = a[i + 1].parse().unwrap(),
            "--case" => case_id = a[i + 1].clone(),
            "--role" => role = a[i + 1].clone(),
            "--model" => model_file = a[i + 1].clone(),
            "--seeded" => seeded = Some(a[i + 1].parse().unwrap()),
            "--out" => out = Some(a[i + 1].clone()),
            "--shard" => {
                let (x, y) = a[i + 1].split_once('/').unwrap();
                shard = (x.parse().unwrap(), y.parse().unwrap());
            }
            other => panic!("unknown argument {}", other),
        }
        i += 2;
    }
    // library panics are expected in some replays; keep stderr quiet
    std::panic::set_hook(Box::new(|_| {}));
    let all = cases::select(&property, tier, seed);
    if let Some(k) = seeded {
        let mut w: Box<dyn Write> = match &out {
            Some(p) => Box::new(std::io::BufWriter::new(std::fs::File::create(p).unwrap())),
            None => Box::new(std::io::stdout()),
        };
        for (ci, case) in all.iter().enumerate() {
            if ci % shard.1 != shard.0 {
                continue;
            }
            let mut ctx = Ctx::new(Mode::Seeded(k), HashMap::new());
            let r = ctx.catch(|ctx| (case.run)(ctx));
            let vals: Vec<String> = ctx.values.iter().map(|(role, b)| format!("[\"{}\",{}]", esc(role), b)).collect();
            writeln!(
                w,
                "{{\"case\":\"{}\",\"seeded\":{},\"panic\":{},\"values\":[{}]}}",
                esc(&case.id),
                k,
                match &r {
                    Ok(_) => "null".to_string(),
                    Err(m) => format!("\"{}\"", esc(m)),
                },
                vals.join(",")
            )
            .unwrap();
        }
        return;
    }
    let case = match all.iter().find(|c| c.id == case_id) {
        Some(c) => c,
        None => {
            println!("REPLAY verdict=ERROR detail=\"no such case {}\"", case_id);
            std::process::exit(2);
        }
    };
    let mut model: HashMap<String, f32> = HashMap::new();
    if !model_file.is_empty() {
        for line in std::fs::read_to_string(&model_file).unwrap().lines() {
            let mut it = line.split_whitespace();
            if let (Some(n), Some(b)) = (it.next(), it.next()) {
                model.insert(n.to_string(), f32::from_bits(b.parse::<u32>().unwrap()));
            }
        }
    }
    let (records, panic, assumes_ok) = run_case(case, &model);
    let verdict = |ok: bool, detail: String| {
        println!(
            "REPLAY case={} role=\"{}\" verdict={} assumptions_hold={} detail=\"{}\"",
            case_id,
            esc(&role),
            if ok { "REPRODUCED" } else { "NOT-REPRODUCED" },
            assumes_ok,
            esc(&detail)
        );
    };
    if role.starts_with("panic:") {
        match panic {
            Some(m) => verdict(true, format!("native panic: {}", m.lines().next().unwrap_or(""))),
            None => verdict(false, "no native panic".into()),
        }
        return;
    }
    let rec = records.iter().find(|r| r.role == role);
    let rec = match rec {
        Some(r) => r.clone(),
        None => {
            // the native run may have panicked before reaching the role
            match panic {
                Some(m) => verdict(false, format!("role not reached; native panic: {}", m.lines().next().unwrap_or(""))),
                None => verdict(false, "role not reached on the native path".into()),
            }
            return;
        }
    };
    match (&rec.kind[..], &rec.grad) {
        ("grad", Some((_, var))) => {
            // central differences of the *real* forward pass in f32, at two step sizes
            let base = *model.get(var).unwrap_or(&ctx::seeded(7, var, 0.25, 0.75));
            let fd = |h: f32| -> Option<f32> {
                let mut lo = model.clone();
                let mut hi = model.clone();
                lo.insert(var.clone(), base - h);
                hi.insert(var.clone(), base + h);
                let (rl, _, _) = run_case(case, &lo);
                let (rh, _, _) = run_case(case, &hi);
                let l = rl.iter().find(|r| r.role == role)?.grad.as_ref()?.0;
                let hval = rh.iter().find(|r| r.role == role)?.grad.as_ref()?.0;
                Some(((hval as f64 - l as f64) / (2.0 * h as f64)) as f32)
            };
            match (fd(1.0 / 64.0), fd(1.0 / 256.0)) {
                (Some(d1), Some(d2)) => {
                    let lhs = rec.lhs;
                    let scale = 1.0f32.max(lhs.abs()).max(d1.abs());
                    let stable = (d1 - d2).abs() <= 0.05 * scale;
                    let differs = (lhs - d1).abs() > 0.05 * scale && (lhs - d2).abs() > 0.05 * scale;
                    verdict(stable && differs, format!("backprop={:e} central-diff={:e}/{:e} (d/d{})", lhs, d1, d2, var));
                }
                _ => verdict(false, "finite-difference re-run did not reach the role".into()),
            }
        }
        _ => verdict(!rec.ok, rec.detail.clone()),
    }
}
