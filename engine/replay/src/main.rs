//! Native replay: runs the shared cases on the REAL crate (feature `verif`).
//!
//! usage: replay --property P --tier T --seed N --case ID --role ROLE --model FILE
//!        replay --property P --tier T --seed N --seeded K [--shard i/n] --out FILE

mod ctx;
mod kani_native;
#[path = "../../cases/mod.rs"]
mod cases;

use cases::Tier;
use ctx::{Ctx, Mode, Record};
use std::collections::HashMap;
use std::io::Write;

fn esc(s: &str) -> String {
    let mut o = String::new();
    for ch in s.chars() {
        match ch {
            '"' => o.push_str("\\\""),
            '\\' => o.push_str("\\\\"),
            '\n' => o.push_str("\\n"),
            c if (c as u32) < 0x20 => o.push(' '),
            c => o.push(c),
        }
    }
    o
}

thread_local! {
    static DEFAULTS: std::cell::Cell<(u64, f32, f32)> = std::cell::Cell::new((7, 0.25, 0.75));
}

fn run_case(case: &cases::Case, model: &HashMap<String, f32>) -> (Vec<Record>, Option<String>, bool) {
    let mut ctx = Ctx::new(Mode::Model, model.clone());
    let (ds, lo, hi) = DEFAULTS.with(|d| d.get());
    ctx.default_seed = ds;
    ctx.default_range = (lo, hi);
    ctx::sync(&ctx);
    let r = ctx.catch(|ctx| (case.run)(ctx));
    (ctx.records.clone(), r.err(), ctx.assumes_ok)
}

fn main() {
    let a: Vec<String> = std::env::args().collect();
    if a.len() >= 3 && a[1] == "--kani" {
        std::panic::set_hook(Box::new(|_| {}));
        let vals: Vec<u64> = a[3..].iter().filter(|x| !x.starts_with("--")).map(|x| x.parse().unwrap()).collect();
        kani_native::run(&a[2], &vals, a.iter().any(|x| x == "--reject-ok"));
        return;
    }
    let (mut property, mut tier, mut seed, mut case_id, mut role, mut model_file) = (String::new(), Tier::Quick, 0u64, String::new(), String::new(), String::new());
    let (mut seeded, mut out, mut shard) = (None::<u64>, None::<String>, (0usize, 1usize));
    let mut search = 0u64;
    let mut i = 1;
    while i < a.len() {
        match a[i].as_str() {
            "--property" => property = a[i + 1].clone(),
            "--tier" => tier = if a[i + 1] == "thorough" { Tier::Thorough } else { Tier::Quick },
            "--seed" => seed = a[i + 1].parse().unwrap(),
            "--case" => case_id = a[i + 1].clone(),
            "--role" => role = a[i + 1].clone(),
            "--model" => model_file = a[i + 1].clone(),
            "--seeded" => seeded = Some(a[i + 1].parse().unwrap()),
            "--search" => search = a[i + 1].parse().unwrap(),
            "--out" => out = Some(a[i + 1].clone()),
            "--shard" => {
                let (x, y) = a[i + 1].split_once('/').unwrap();
                shard = (x.parse().unwrap(), y.parse().unwrap());
            }
            other => panic!("unknown argument {}", other),
        }
        i += 2;
    }
    // library panics are expected in some replays; keep stderr quiet
    std::panic::set_hook(Box::new(|_| {}));
    let all = cases::select(&property, tier, seed);
    if let Some(k) = seeded {
        let mut w: Box<dyn Write> = match &out {
            Some(p) => Box::new(std::io::BufWriter::new(std::fs::File::create(p).unwrap())),
            None => Box::new(std::io::stdout()),
        };
        for (ci, case) in all.iter().enumerate() {
            if ci % shard.1 != shard.0 {
                continue;
            }
            let mut ctx = Ctx::new(Mode::Seeded(k), HashMap::new());
            ctx::sync(&ctx);
            let r = ctx.catch(|ctx| (case.run)(ctx));
            let vals: Vec<String> = ctx.values.iter().map(|(role, b)| format!("[\"{}\",{}]", esc(role), b)).collect();
            writeln!(
                w,
                "{{\"case\":\"{}\",\"seeded\":{},\"panic\":{},\"values\":[{}]}}",
                esc(&case.id),
                k,
                match &r {
                    Ok(_) => "null".to_string(),
                    Err(m) => format!("\"{}\"", esc(m)),
                },
                vals.join(",")
            )
            .unwrap();
        }
        return;
    }
    let case = match all.iter().find(|c| c.id == case_id) {
        Some(c) => c,
        None => {
            println!("REPLAY verdict=ERROR detail=\"no such case {}\"", case_id);
            std::process::exit(2);
        }
    };
    let mut model: HashMap<String, f32> = HashMap::new();
    if !model_file.is_empty() {
        for line in std::fs::read_to_string(&model_file).unwrap().lines() {
            let mut it = line.split_whitespace();
            if let (Some(n), Some(b)) = (it.next(), it.next()) {
                model.insert(n.to_string(), f32::from_bits(b.parse::<u32>().unwrap()));
            }
        }
    }
    // first the solver's model; if it does not reproduce (uninterpreted libm functions, rounding), search seeded
    // assignments natively for a witness of the same role — the solver already decided `sat`, this only confirms it
    let (ok, assumes_ok, detail) = evaluate(case, &model, &role);
    let emit = |ok: bool, assumes_ok: bool, detail: String, how: &str| {
        println!(
            "REPLAY case={} role=\"{}\" verdict={} witness={} assumptions_hold={} detail=\"{}\"",
            case_id,
            esc(&role),
            if ok { "REPRODUCED" } else { "NOT-REPRODUCED" },
            how,
            assumes_ok,
            esc(&detail)
        );
    };
    if ok && assumes_ok {
        emit(true, true, detail, "solver-model");
        return;
    }
    // uninterpreted libm functions leave the solver some freedom near overflow / underflow thresholds: the same assignment
    // pushed a little further out (or in) is tried before unrelated assignments
    if search > 0 && !model.is_empty() {
        for f in [1.01f32, 1.02, 1.05, 1.1, 1.25, 1.5, 2.0, 0.99, 0.98, 0.95, 0.9, 0.75, 0.5] {
            let scaled: HashMap<String, f32> = model.iter().map(|(k, v)| (k.clone(), *v * f)).collect();
            let (ok2, as2, d2) = evaluate(case, &scaled, &role);
            if ok2 && as2 {
                emit(true, true, d2, &format!("solver-model-scaled-by-{}", f));
                return;
            }
        }
    }
    for k in 1..=search {
        DEFAULTS.with(|d| d.set((1000 + k, -2.0, 2.0)));
        let empty = HashMap::new();
        let (ok2, as2, d2) = evaluate(case, &empty, &role);
        if ok2 && as2 {
            emit(true, true, d2, &format!("seeded-assignment-{}", 1000 + k));
            return;
        }
    }
    emit(false, assumes_ok, detail, "none");
}

fn evaluate(case: &cases::Case, model: &HashMap<String, f32>, role: &str) -> (bool, bool, String) {
    let (records, panic, assumes_ok) = run_case(case, model);
    if role.starts_with("panic:") {
        return match panic {
            Some(m) => (true, assumes_ok, format!("native panic: {}", m.lines().next().unwrap_or(""))),
            None => (false, assumes_ok, "no native panic".into()),
        };
    }
    let rec = match records.iter().find(|r| r.role == role) {
        Some(r) => r.clone(),
        None => {
            return match panic {
                Some(m) => (false, assumes_ok, format!("role not reached; native panic: {}", m.lines().next().unwrap_or(""))),
                None => (false, assumes_ok, "role not reached on the native path".into()),
            }
        }
    };
    match (&rec.kind[..], &rec.grad) {
        ("grad", Some((_, var))) => {
            // central differences of the *real* forward pass in f32, at two step sizes
            let (ds, lo, hi) = DEFAULTS.with(|d| d.get());
            let base = *model.get(var).unwrap_or(&ctx::seeded(ds, var, lo, hi));
            let fd = |h: f32| -> Option<f32> {
                let mut lo = model.clone();
                let mut hi = model.clone();
                lo.insert(var.clone(), base - h);
                hi.insert(var.clone(), base + h);
                let (rl, _, _) = run_case(case, &lo);
                let (rh, _, _) = run_case(case, &hi);
                let l = rl.iter().find(|r| r.role == role)?.grad.as_ref()?.0;
                let hval = rh.iter().find(|r| r.role == role)?.grad.as_ref()?.0;
                Some(((hval as f64 - l as f64) / (2.0 * h as f64)) as f32)
            };
            match (fd(1.0 / 64.0), fd(1.0 / 256.0)) {
                (Some(d1), Some(d2)) => {
                    let lhs = rec.lhs;
                    let scale = 1.0f32.max(lhs.abs()).max(d1.abs());
                    let stable = (d1 - d2).abs() <= 0.004 * scale;
                    let differs = (lhs - d1).abs() > 0.01 * scale && (lhs - d2).abs() > 0.01 * scale;
                    (stable && differs, assumes_ok, format!("backprop={:e} central-diff={:e}/{:e} (d/d{})", lhs, d1, d2, var))
                }
                _ => (false, assumes_ok, "finite-difference re-run did not reach the role".into()),
            }
        }
        _ => (!rec.ok, assumes_ok, rec.detail.clone()),
    }
}
