// symgen: rewrite the neurons crate so that every `f32` becomes `::symrt::Sf32`.
// usage: symgen <repo/src dir> <out/src dir> [--stub Type::method ...]
use proc_macro2::{Span, TokenStream, TokenTree, Group, Literal};
use quote::{quote, ToTokens};
use std::{env, fs, path::Path};
use syn::punctuated::Punctuated;
use syn::visit_mut::{self, VisitMut};
use syn::{parse::Parser, parse_quote, Expr, ExprLit, Lit, LitFloat, Macro, Token, Type};

const INT_TYPES: &[&str] = &[
    "usize", "u64", "u32", "u16", "u8", "isize", "i64", "i32", "i16", "i8", "u128", "i128",
];

struct Rw {
    stubs: Vec<(String, String)>, // (Type, method)
    cur_impl: Option<String>,
}

fn float_lit_expr(l: &LitFloat) -> Expr {
    let mut digits = l.base10_digits().to_string();
    if digits.ends_with('.') { digits.push('0'); }
    if !digits.contains('.') && !digits.contains('e') && !digits.contains('E') { digits.push_str(".0"); }
    let lit = LitFloat::new(&format!("{}f32", digits), l.span());
    parse_quote!(::symrt::Sf32::lit(#lit))
}

impl Rw {
    fn rewrite_tokens_fallback(&mut self, ts: TokenStream) -> TokenStream {
        // token-level: float literals -> Sf32::lit(..); ident f32 -> ::symrt::Sf32
        let mut out = Vec::<TokenTree>::new();
        for tt in ts {
            match tt {
                TokenTree::Group(g) => {
                    let inner = self.rewrite_tokens_fallback(g.stream());
                    let mut ng = Group::new(g.delimiter(), inner);
                    ng.set_span(g.span());
                    out.push(TokenTree::Group(ng));
                }
                TokenTree::Literal(l) => {
                    let s = l.to_string();
                    let is_float = syn::parse_str::<LitFloat>(&s).is_ok();
                    if is_float {
                        let lf: LitFloat = syn::parse_str(&s).unwrap();
                        let e = float_lit_expr(&lf);
                        out.extend(e.to_token_stream());
                    } else {
                        out.push(TokenTree::Literal(l));
                    }
                }
                TokenTree::Ident(i) if i == "f32" => {
                    out.extend(quote!(::symrt::Sf32));
                }
                other => out.push(other),
            }
        }
        out.into_iter().collect()
    }

    fn rewrite_macro(&mut self, mac: &mut Macro) {
        let name = mac.path.segments.last().map(|s| s.ident.to_string()).unwrap_or_default();
        let tokens = mac.tokens.clone();
        // vec![elem; n]
        if name == "vec" {
            let parser = |input: syn::parse::ParseStream| -> syn::Result<(Expr, Expr)> {
                let a: Expr = input.parse()?;
                let _: Token![;] = input.parse()?;
                let b: Expr = input.parse()?;
                Ok((a, b))
            };
            if let Ok((mut a, mut b)) = parser.parse2(tokens.clone()) {
                self.visit_expr_mut(&mut a);
                self.visit_expr_mut(&mut b);
                mac.tokens = quote!(#a; #b);
                return;
            }
        }
        let parser = Punctuated::<Expr, Token![,]>::parse_terminated;
        match parser.parse2(tokens.clone()) {
            Ok(mut args) => {
                for a in args.iter_mut() {
                    self.visit_expr_mut(a);
                }
                mac.tokens = args.to_token_stream();
            }
            Err(_) => {
                mac.tokens = self.rewrite_tokens_fallback(tokens);
            }
        }
    }
}

impl VisitMut for Rw {
    fn visit_path_mut(&mut self, p: &mut syn::Path) {
        visit_mut::visit_path_mut(self, p);
        // std::f32::X / core::f32::X  ->  ::symrt::f32_mod::X
        if p.segments.len() >= 3
            && (p.segments[0].ident == "std" || p.segments[0].ident == "core")
            && p.segments[1].ident == "f32"
        {
            let rest: Vec<syn::PathSegment> = p.segments.iter().skip(2).cloned().collect();
            let mut np: syn::Path = parse_quote!(::symrt::f32_mod);
            for s in rest {
                np.segments.push(s);
            }
            *p = np;
            return;
        }
        // std::collections::X  ->  ::symrt::hashmodel::X   (hash collections: contract model with arbitrary iteration order)
        if p.segments.len() >= 3 && p.segments[0].ident == "std" && p.segments[1].ident == "collections" {
            let rest: Vec<syn::PathSegment> = p.segments.iter().skip(2).cloned().collect();
            let mut np: syn::Path = parse_quote!(::symrt::hashmodel);
            for s in rest {
                np.segments.push(s);
            }
            *p = np;
            return;
        }
        if p.leading_colon.is_none() && !p.segments.is_empty() && p.segments[0].ident == "f32" {
            let rest: Vec<syn::PathSegment> = p.segments.iter().skip(1).cloned().collect();
            let mut np: syn::Path = parse_quote!(::symrt::Sf32);
            for s in rest {
                np.segments.push(s);
            }
            *p = np;
        }
    }

    fn visit_expr_mut(&mut self, e: &mut Expr) {
        // literals first (do not recurse into the replacement)
        if let Expr::Lit(ExprLit { lit: Lit::Float(l), .. }) = e {
            *e = float_lit_expr(l);
            return;
        }
        visit_mut::visit_expr_mut(self, e);
        if let Expr::Binary(b) = e {
            use syn::BinOp::*;
            if matches!(b.op, AddAssign(_) | SubAssign(_) | MulAssign(_) | DivAssign(_) | RemAssign(_)) {
                let (l, op, r) = (&b.left, &b.op, &b.right);
                *e = parse_quote!({ let __rhs = #r; #l #op __rhs; });
                return;
            }
        }
        if let Expr::Cast(c) = e {
            let inner = &c.expr;
            if let Type::Path(tp) = &*c.ty {
                if tp.qself.is_none() {
                    let last = tp.path.segments.last().unwrap().ident.to_string();
                    // note: `f32` has already been rewritten to ::symrt::Sf32 by visit_path_mut
                    if last == "Sf32" {
                        *e = parse_quote!(::symrt::cast_s(#inner));
                        return;
                    }
                    if tp.path.segments.len() == 1 && INT_TYPES.contains(&last.as_str()) {
                        let ty = &c.ty;
                        *e = parse_quote!(::symrt::cast_p::<_, #ty>(#inner));
                        return;
                    }
                }
            }
        }
    }

    fn visit_item_use_mut(&mut self, u: &mut syn::ItemUse) {
        // use std::collections::…  ->  use ::symrt::hashmodel::…
        if let syn::UseTree::Path(p) = &u.tree {
            if p.ident == "std" {
                if let syn::UseTree::Path(q) = &*p.tree {
                    if q.ident == "collections" {
                        let inner = &q.tree;
                        let attrs = &u.attrs;
                        let vis = &u.vis;
                        *u = parse_quote!(#(#attrs)* #vis use ::symrt::hashmodel::#inner;);
                        return;
                    }
                }
                if let syn::UseTree::Group(g) = &*p.tree {
                    for t in g.items.iter() {
                        if let syn::UseTree::Path(q) = t {
                            if q.ident == "collections" {
                                panic!("symgen: `use std::{{collections::…, …}}` groups are not rewritten; write the collections import on its own line");
                            }
                        }
                    }
                }
            }
        }
        visit_mut::visit_item_use_mut(self, u);
    }

    fn visit_macro_mut(&mut self, m: &mut Macro) {
        self.rewrite_macro(m);
    }

    fn visit_item_impl_mut(&mut self, i: &mut syn::ItemImpl) {
        let old = self.cur_impl.take();
        if i.trait_.is_none() {
            if let Type::Path(tp) = &*i.self_ty {
                self.cur_impl = Some(tp.path.segments.last().unwrap().ident.to_string());
            }
        }
        visit_mut::visit_item_impl_mut(self, i);
        self.cur_impl = old;
    }

    fn visit_impl_item_fn_mut(&mut self, f: &mut syn::ImplItemFn) {
        visit_mut::visit_impl_item_fn_mut(self, f);
        if let Some(ty) = &self.cur_impl {
            let name = f.sig.ident.to_string();
            if self.stubs.iter().any(|(t, m)| t == ty && *m == name) {
                // replace body by a call into ::symrt::stubs::<Type>_<method>(args...)
                let stub = syn::Ident::new(&format!("{}_{}", ty, name), Span::call_site());
                let mut args = Vec::<Expr>::new();
                for a in f.sig.inputs.iter() {
                    match a {
                        syn::FnArg::Receiver(_) => {}
                        syn::FnArg::Typed(pt) => {
                            if let syn::Pat::Ident(pi) = &*pt.pat {
                                let id = &pi.ident;
                                args.push(parse_quote!(#id));
                            }
                        }
                    }
                }
                f.block = parse_quote!({ crate::verif_stubs::#stub(#(#args),*) });
            }
        }
    }
}

fn main() {
    let args: Vec<String> = env::args().collect();
    let src = Path::new(&args[1]);
    let out = Path::new(&args[2]);
    let mut stubs = Vec::new();
    let mut i = 3;
    while i < args.len() {
        if args[i] == "--stub" {
            let (t, m) = args[i + 1].split_once("::").expect("Type::method");
            stubs.push((t.to_string(), m.to_string()));
            i += 2;
        } else {
            i += 1;
        }
    }
    fs::create_dir_all(out).unwrap();
    let _ = Literal::f32_unsuffixed(0.0);
    for entry in fs::read_dir(src).unwrap() {
        let p = entry.unwrap().path();
        if p.extension().map(|e| e != "rs").unwrap_or(true) {
            continue;
        }
        let fname = p.file_name().unwrap().to_str().unwrap().to_string();
        if fname == "plot.rs" {
            continue;
        }
        let text = fs::read_to_string(&p).unwrap();
        let mut file = syn::parse_file(&text).expect("parse");
        if fname == "lib.rs" {
            file.items.retain(|it| match it {
                syn::Item::Mod(m) => m.ident != "plot",
                _ => true,
            });
            file.attrs.clear();
        }
        let mut rw = Rw { stubs: stubs.clone(), cur_impl: None };
        rw.visit_file_mut(&mut file);
        let ts = file.to_token_stream().to_string();
        fs::write(out.join(&fname), ts).unwrap();
        eprintln!("rewrote {}", fname);
    }
}
