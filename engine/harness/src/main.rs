//! Symbolic harness: runs the shared cases on the shadow crate and emits one SMT obligation per claim.
//!
//! usage: harness --property C02 --tier quick|thorough --seed N [--shard i/n] [--only SUBSTR] --out FILE
//!        harness --property C02 --tier … --seed N --seeded K --out FILE     (translator validation values)
//!        harness --property C02 --tier … --seed N --list

mod ctx;
#[path = "../../cases/mod.rs"]
mod cases;

use cases::{Th, Tier, B};
use ctx::{Ctx, Mode, S};
use std::io::Write;
use symrt::{Printer, Theory};

fn esc(s: &str) -> String {
    let mut o = String::with_capacity(s.len() + 2);
    for ch in s.chars() {
        match ch {
            '"' => o.push_str("\\\""),
            '\\' => o.push_str("\\\\"),
            '\n' => o.push_str("\\n"),
            '\t' => o.push_str("\\t"),
            '\r' => o.push_str("\\r"),
            c if (c as u32) < 0x20 => o.push_str(&format!("\\u{:04x}", c as u32)),
            c => o.push(c),
        }
    }
    o
}

fn b2s(pr: &mut Printer, b: &B) -> String {
    let fp = pr.theory == Theory::Fp;
    match b {
        B::True => "true".into(),
        B::Lt(x, y) => {
            let (a, c) = (pr.term(*x), pr.term(*y));
            if fp { format!("(fp.lt {} {})", a, c) } else { format!("(< {} {})", a, c) }
        }
        B::Le(x, y) => {
            let (a, c) = (pr.term(*x), pr.term(*y));
            if fp { format!("(fp.leq {} {})", a, c) } else { format!("(<= {} {})", a, c) }
        }
        B::Eq(x, y) => {
            let (a, c) = (pr.term(*x), pr.term(*y));
            if fp { format!("(fp.eq {} {})", a, c) } else { format!("(= {} {})", a, c) }
        }
        B::Same(x, y) => {
            let (a, c) = (pr.term(*x), pr.term(*y));
            format!("(= {} {})", a, c)
        }
        B::Ident(x, y) => {
            let (a, c) = (pr.term(*x), pr.term(*y));
            if fp { format!("(or (= {0} {1}) (fp.eq {0} {1}))", a, c) } else { format!("(= {} {})", a, c) }
        }
        B::IsNan(x) => {
            if fp { format!("(fp.isNaN {})", pr.term(*x)) } else { "false".into() }
        }
        B::IsInf(x) => {
            if fp { format!("(fp.isInfinite {})", pr.term(*x)) } else { "false".into() }
        }
        B::Not(x) => format!("(not {})", b2s(pr, x)),
        B::And(xs) => {
            if xs.is_empty() { "true".into() } else { format!("(and {})", xs.iter().map(|x| b2s(pr, x)).collect::<Vec<_>>().join(" ")) }
        }
        B::Or(xs) => {
            if xs.is_empty() { "false".into() } else { format!("(or {})", xs.iter().map(|x| b2s(pr, x)).collect::<Vec<_>>().join(" ")) }
        }
    }
}

fn trivial(b: &B) -> bool {
    match b {
        B::True => true,
        B::Eq(x, y) | B::Same(x, y) | B::Ident(x, y) => x.same(*y),
        B::And(xs) => xs.iter().all(trivial),
        _ => false,
    }
}

struct Args {
    property: String,
    tier: Tier,
    seed: u64,
    shard: (usize, usize),
    only: Option<String>,
    out: Option<String>,
    seeded: Option<u64>,
    list: bool,
}

fn parse_args() -> Args {
    let a: Vec<String> = std::env::args().collect();
    let mut r = Args { property: String::new(), tier: Tier::Quick, seed: 0, shard: (0, 1), only: None, out: None, seeded: None, list: false };
    let mut i = 1;
    while i < a.len() {
        match a[i].as_str() {
            "--property" => { r.property = a[i + 1].clone(); i += 2; }
            "--tier" => { r.tier = if a[i + 1] == "thorough" { Tier::Thorough } else { Tier::Quick }; i += 2; }
            "--seed" => { r.seed = a[i + 1].parse().unwrap(); i += 2; }
            "--shard" => { let (x, y) = a[i + 1].split_once('/').unwrap(); r.shard = (x.parse().unwrap(), y.parse().unwrap()); i += 2; }
            "--only" => { r.only = Some(a[i + 1].clone()); i += 2; }
            "--out" => { r.out = Some(a[i + 1].clone()); i += 2; }
            "--seeded" => { r.seeded = Some(a[i + 1].parse().unwrap()); i += 2; }
            "--list" => { r.list = true; i += 1; }
            other => panic!("unknown argument {}", other),
        }
    }
    r
}

fn real_main() {
    symrt::install_quiet_panic_hook();
    let args = parse_args();
    let all = cases::select(&args.property, args.tier, args.seed);
    if args.list {
        for c in all.iter() {
            println!("{}", c.id);
        }
        return;
    }
    let mut out: Box<dyn Write> = match &args.out {
        Some(p) => Box::new(std::io::BufWriter::new(std::fs::File::create(p).unwrap())),
        None => Box::new(std::io::stdout()),
    };
    for (ci, case) in all.iter().enumerate() {
        if ci % args.shard.1 != args.shard.0 {
            continue;
        }
        if let Some(o) = &args.only {
            if !case.id.contains(o.as_str()) {
                continue;
            }
        }
        let t0 = std::time::Instant::now();
        if let Some(k) = args.seeded {
            // translator validation: all variables are constants; the shadow crate constant-folds in real f32
            symrt::with(|a| { a.no_ties = false; a.forbid_forks = false; a.fold_inexact = true; a.extreme_forks = false; });
            let mut ctx = Ctx::new(Mode::Seeded(k));
            let r = ctx.catch(|ctx| (case.run)(ctx));
            let vals: Vec<String> = ctx.values.iter().map(|(role, b)| format!("[\"{}\",{}]", esc(role), b)).collect();
            writeln!(out, "{{\"case\":\"{}\",\"seeded\":{},\"panic\":{},\"values\":[{}]}}", esc(&case.id), k,
                match &r { Ok(_) => "null".to_string(), Err(m) => format!("\"{}\"", esc(m)) }, vals.join(",")).unwrap();
            continue;
        }
        symrt::with(|a| { a.no_ties = case.no_ties; a.forbid_forks = false; a.fold_inexact = false; a.extreme_forks = false; });
        let explored = std::panic::catch_unwind(std::panic::AssertUnwindSafe(|| {
            symrt::explore(case.max_paths, || {
                symrt::clear_assumptions();
                rayon::model::set_mode(rayon::Mode::Sequential);
                let mut ctx = Ctx::new(Mode::Symbolic);
                let r = ctx.catch(|ctx| (case.run)(ctx));
                (ctx, r)
            })
        }));
        symrt::clear_assumptions();
        let paths = match explored {
            Ok(p) => p,
            Err(e) => {
                writeln!(out, "{{\"case\":\"{}\",\"error\":\"{}\"}}", esc(&case.id), esc(&symrt::panic_message(&*e))).unwrap();
                continue;
            }
        };
        if symrt::truncated() {
            writeln!(out, "{{\"case\":\"{}\",\"error\":\"NOT-ENCODABLE: path budget exceeded (only the first {} paths are decided)\"}}", esc(&case.id), paths.len()).unwrap();
        }
        let trace_ms = t0.elapsed().as_millis();
        let mut n_obl = 0usize;
        for (pi, path) in paths.iter().enumerate() {
            let (ctx, r) = match &path.result {
                Ok(x) => x,
                Err(m) => {
                    writeln!(out, "{{\"case\":\"{}\",\"error\":\"{}\"}}", esc(&case.id), esc(m)).unwrap();
                    continue;
                }
            };
            let mut emit = |role: &str, kind: &str, theory: Th, assume: &[B], claim: &B, fp_bound: Option<f32>, detail: &str, out: &mut Box<dyn Write>| {
                if trivial(claim) && kind != "witness" {
                    // both sides are the SAME hash-consed DAG node: the obligation is an instance of reflexivity; the term
                    // itself is not printed (it can be megabytes), the solver still sees `t = t` for an opaque t
                    let sort = if theory == Th::Fp { "(_ FloatingPoint 8 24)" } else { "Real" };
                    let smt = format!("(set-logic ALL)\n(declare-const t {})\n(assert (not (= t t)))\n", sort);
                    writeln!(
                        out,
                        "{{\"case\":\"{}\",\"property\":\"{}\",\"family\":\"{}\",\"class\":\"{}\",\"path\":{},\"role\":\"{}\",\"kind\":\"{}\",\"theory\":\"{}\",\"trivial\":true,\"no_ties\":{},\"detail\":\"{}\",\"encode_error\":null,\"eq_terms\":null,\"vars\":[],\"smt_real\":null,\"vars_real\":null,\"smt\":\"{}\"}}",
                        esc(&case.id), case.property, esc(case.family), esc(&case.class), pi, esc(role), kind,
                        if theory == Th::Fp { "fp" } else { "real" }, case.no_ties, esc(detail), esc(&smt)
                    ).unwrap();
                    return;
                }
                let mut pr = Printer::new(if theory == Th::Fp { Theory::Fp } else { Theory::Real });
                let mut body = pr.assert_decisions(&path.pc);
                body.push_str(&pr.assert_decisions(&path.domain));
                for a in assume {
                    let s = b2s(&mut pr, a);
                    body.push_str(&format!("(assert {})\n", s));
                }
                let cs = b2s(&mut pr, claim);
                body.push_str(&format!("(assert (not {}))\n", cs));
                let eq_terms = match claim {
                    B::Eq(l, r) => format!("[\"{}\",\"{}\"]", esc(&pr.term(*l)), esc(&pr.term(*r))),
                    _ => "null".to_string(),
                };
                let err = pr.error.clone();
                let syms = pr.var_symbols();
                let (smt, names) = pr.finish(&body, case.no_ties && theory == Th::Real, fp_bound);
                // a Float32 identity between two different DAGs is first tried with their COMMON sub-terms abstracted to
                // free Float32 constants and without the path condition (sound for `unsat`; a `sat` answer is only a
                // candidate that is replayed natively or discarded)
                let mut smt_abs = String::from("null");
                if theory == Th::Fp && !trivial(claim) {
                    if let B::Same(l, r) | B::Eq(l, r) | B::Ident(l, r) = claim {
                        // common outer structure is stripped first (sound for identity up to the sign of zero)
                        let (l, r) = if matches!(claim, B::Ident(..) | B::Eq(..)) { symrt::peel(*l, *r) } else { (*l, *r) };
                        let (l, r) = (&l, &r);
                        let (rl, rr) = (symrt::reachable(*l), symrt::reachable(*r));
                        let shared: std::collections::HashSet<symrt::R> = rl.intersection(&rr).cloned().collect();
                        if !shared.is_empty() && !shared.contains(&l.0) && !shared.contains(&r.0) {
                            let mut pr3 = Printer::new(Theory::Fp);
                            pr3.abstracted = shared;
                            let inner = match claim {
                                B::Same(..) => B::Same(*l, *r),
                                B::Eq(..) => B::Eq(*l, *r),
                                _ => B::Ident(*l, *r),
                            };
                            let cs3 = b2s(&mut pr3, &inner);
                            let body3 = format!("(assert (not {}))\n", cs3);
                            if pr3.error.is_none() {
                                let (s3, _) = pr3.finish(&body3, false, None);
                                smt_abs = format!("\"{}\"", esc(&s3));
                            }
                        }
                    }
                }
                // a Float32 identity is also printed over the reals: a real counterexample is a cheap candidate that the
                // native replay confirms or rejects (it never discharges the Float32 obligation)
                let mut smt_real = String::from("null");
                let mut vars_real = String::from("null");
                if theory == Th::Fp && !trivial(claim) && matches!(claim, B::Same(..) | B::Eq(..) | B::Ident(..)) {
                    let mut pr2 = Printer::new(Theory::Real);
                    let mut body2 = pr2.assert_decisions(&path.pc);
                    body2.push_str(&pr2.assert_decisions(&path.domain));
                    for a in assume {
                        let s = b2s(&mut pr2, a);
                        body2.push_str(&format!("(assert {})\n", s));
                    }
                    let cs2 = b2s(&mut pr2, claim);
                    body2.push_str(&format!("(assert (not {}))\n", cs2));
                    if pr2.error.is_none() {
                        let syms2 = pr2.var_symbols();
                        let (s2, names2) = pr2.finish(&body2, false, None);
                        smt_real = format!("\"{}\"", esc(&s2));
                        let v2: Vec<String> = names2.iter().zip(syms2.iter()).map(|(n, s)| format!("[\"{}\",\"{}\"]", esc(n), s)).collect();
                        vars_real = format!("[{}]", v2.join(","));
                    }
                }
                let vars: Vec<String> = names.iter().zip(syms.iter()).map(|(n, s)| format!("[\"{}\",\"{}\"]", esc(n), s)).collect();
                writeln!(
                    out,
                    "{{\"case\":\"{}\",\"property\":\"{}\",\"family\":\"{}\",\"class\":\"{}\",\"path\":{},\"role\":\"{}\",\"kind\":\"{}\",\"theory\":\"{}\",\"trivial\":{},\"no_ties\":{},\"detail\":\"{}\",\"encode_error\":{},\"eq_terms\":{},\"vars\":[{}],\"smt_real\":{},\"vars_real\":{},\"smt_abs\":{},\"smt\":\"{}\"}}",
                    esc(&case.id), case.property, esc(case.family), esc(&case.class), pi, esc(role), kind,
                    if theory == Th::Fp { "fp" } else { "real" }, trivial(claim), case.no_ties, esc(detail),
                    match err { Some(e) => format!("\"{}\"", esc(&e)), None => "null".into() },
                    eq_terms, vars.join(","), smt_real, vars_real, smt_abs, esc(&smt)
                ).unwrap();
            };
            for o in ctx.obls.iter() {
                if o.kind == "fact-ok" {
                    n_obl += 1;
                    writeln!(out, "{{\"case\":\"{}\",\"property\":\"{}\",\"path\":{},\"role\":\"{}\",\"kind\":\"fact-ok\",\"detail\":\"{}\"}}", esc(&case.id), case.property, pi, esc(&o.role), esc(&o.detail)).unwrap();
                    continue;
                }
                n_obl += 1;
                emit(&o.role, o.kind, o.theory, &o.assume, &o.claim, o.fp_bound, &o.detail, &mut out);
            }
            let np = paths.len();
            if pi == 0 || pi + 1 == np || pi == np / 2 || pi == np / 4 || pi == (3 * np) / 4 {
                // vacuity witness (a spread of up to five paths per case: single paths may be infeasible by transitivity): path condition and assumptions of this path must be satisfiable (expected `sat`)
                emit("witness", "witness", Th::Real, &ctx.assumes, &B::True.not(), None, "path condition and assumptions are satisfiable", &mut out);
            }
            if let Err(msg) = r {
                // the case itself panicked on this path: reachable iff the path condition is satisfiable
                n_obl += 1;
                emit(&format!("panic: {}", msg.lines().next().unwrap_or("")), "panic", Th::Real, &ctx.assumes, &B::True.not(), None, msg, &mut out);
            }
        }
        writeln!(
            out,
            "{{\"case\":\"{}\",\"summary\":true,\"paths\":{},\"obligations\":{},\"trace_ms\":{},\"nodes\":{}}}",
            esc(&case.id), paths.len(), n_obl, trace_ms, symrt::with(|a| a.nodes.len())
        ).unwrap();
    }
    out.flush().unwrap();
}

fn main() {
    // deep DAGs recurse deeply in the printer / differentiator
    let h = std::thread::Builder::new().stack_size(2 << 30).spawn(real_main).unwrap();
    if h.join().is_err() {
        std::process::exit(3);
    }
}

#[allow(dead_code)]
fn _unused(_: S) {}
