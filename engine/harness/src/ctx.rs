//! Symbolic implementation of the case context (shadow build).

use crate::cases::{Th, B};
use symrt::{DiffMode, Differ};

pub type S = symrt::Sf32;

pub fn lit(x: f32) -> S {
    S::lit(x)
}
pub fn ite_lt(a: S, b: S, t: S, e: S) -> S {
    symrt::ite_lt(a, b, t, e)
}

#[derive(Clone, Copy, PartialEq)]
pub enum Mode {
    Symbolic,
    /// all variables are seeded constants (translator validation)
    Seeded(u64),
}

thread_local! {
    static CURRENT_MODE: std::cell::Cell<Option<u64>> = std::cell::Cell::new(None); // None = symbolic, Some(seed) = seeded
}

/// A variable by name, usable where no `Ctx` is at hand (stub closures registered with the library).
pub fn fresh(name: &str) -> S {
    match CURRENT_MODE.with(|m| m.get()) {
        None => S::var(name),
        Some(seed) => S::lit(seeded(seed, name, -2.0, 2.0)),
    }
}

pub struct Obl {
    pub role: String,
    pub theory: Th,
    pub assume: Vec<B>,
    pub claim: B,
    pub kind: &'static str,
    pub fp_bound: Option<f32>,
    pub detail: String,
}

pub struct Ctx {
    pub mode: Mode,
    pub obls: Vec<Obl>,
    pub assumes: Vec<B>,
    pub fp_bound: Option<f32>,
    pub diff_mode: DiffMode,
    /// seeded mode: (role, lhs bits)
    pub values: Vec<(String, u32)>,
}

pub fn seeded(seed: u64, name: &str, lo: f32, hi: f32) -> f32 {
    let h = crate::cases::mix(crate::cases::hash_str(name) ^ crate::cases::mix(seed));
    let frac = (h % 4001) as f32 / 4000.0;
    lo + frac * (hi - lo)
}

impl Ctx {
    pub fn new(mode: Mode) -> Ctx {
        CURRENT_MODE.with(|m| m.set(match mode {
            Mode::Symbolic => None,
            Mode::Seeded(k) => Some(k),
        }));
        Ctx { mode, obls: Vec::new(), assumes: Vec::new(), fp_bound: None, diff_mode: DiffMode::Generic, values: Vec::new() }
    }
    /// differentiate activation atoms in the closed form the library uses (C07 proves the forms equal)
    pub fn aligned_diff(&mut self, on: bool) {
        self.diff_mode = if on { DiffMode::Aligned } else { DiffMode::Generic };
    }
    /// how the rayon model schedules the parallel stages that follow: "sequential" | "reversed" | "explore"
    pub fn schedule(&mut self, mode: &str) {
        rayon::model::set_mode(match mode {
            "explore" => rayon::Mode::Explore,
            "reversed" => rayon::Mode::Reversed,
            _ => rayon::Mode::Sequential,
        });
    }
    /// native mode runs `f` on a pool of `n` worker threads; the model ignores the count (every schedule is explored)
    pub fn with_threads<T: Send>(&mut self, _n: usize, f: impl FnOnce() -> T + Send) -> T {
        f()
    }
    /// a precondition of the *harness* (not a claim about the library): if it fails the case is inconclusive
    pub fn require(&mut self, ok: bool, what: &str) {
        if !ok {
            symrt::not_encodable(&format!("harness precondition failed: {}", what));
        }
    }
    pub fn symbolic(&self) -> bool {
        self.mode == Mode::Symbolic
    }
    pub fn var(&mut self, name: &str) -> S {
        match self.mode {
            Mode::Symbolic => S::var(name),
            Mode::Seeded(seed) => S::lit(seeded(seed, name, -2.0, 2.0)),
        }
    }
    /// a variable constrained to `[lo, hi]`
    pub fn var_in(&mut self, name: &str, lo: f32, hi: f32) -> S {
        match self.mode {
            Mode::Symbolic => {
                let v = S::var(name);
                self.assume(B::Le(S::lit(lo), v));
                self.assume(B::Le(v, S::lit(hi)));
                v
            }
            Mode::Seeded(seed) => S::lit(seeded(seed, name, lo, hi)),
        }
    }
    /// Assumption for all later obligations of this run; simple comparisons also steer path exploration.
    pub fn assume(&mut self, b: B) {
        if self.mode == Mode::Symbolic {
            match &b {
                B::Lt(x, y) => symrt::assume_lt(*x, *y),
                B::Le(x, y) => symrt::assume_le(*x, *y),
                B::Not(inner) => {
                    if let B::Eq(x, y) = &**inner {
                        symrt::assume_ne(*x, *y)
                    }
                }
                _ => {}
            }
        }
        self.assumes.push(b);
    }
    fn push(&mut self, role: &str, theory: Th, claim: B, kind: &'static str, detail: String) {
        self.obls.push(Obl { role: role.to_string(), theory, assume: self.assumes.clone(), claim, kind, fp_bound: self.fp_bound, detail });
    }
    /// `lhs == rhs` over the reals.
    pub fn eq(&mut self, role: &str, lhs: S, rhs: S) {
        if let Mode::Seeded(_) = self.mode {
            self.values.push((role.to_string(), lhs.concrete().map(|x| x.to_bits()).unwrap_or(0)));
            return;
        }
        self.push(role, Th::Real, B::Eq(lhs, rhs), "eq", String::new());
    }
    /// `lhs == d loss / d var` over the reals (`var` is the *name* of a variable).
    pub fn grad(&mut self, role: &str, lhs: S, loss: S, var: &str) {
        if let Mode::Seeded(_) = self.mode {
            self.values.push((role.to_string(), lhs.concrete().map(|x| x.to_bits()).unwrap_or(0)));
            return;
        }
        let v = S::var(var);
        let rhs = Differ::new(v, self.diff_mode).d(loss);
        self.push(role, Th::Real, B::Eq(lhs, rhs), "grad", format!("d/d{}", var));
    }
    pub fn claim(&mut self, role: &str, theory: Th, claim: B) {
        if let Mode::Seeded(_) = self.mode {
            return;
        }
        self.push(role, theory, claim, "claim", String::new());
    }
    /// record a value for the differential run (no obligation)
    pub fn observe(&mut self, role: &str, v: S) {
        if let Mode::Seeded(_) = self.mode {
            self.values.push((role.to_string(), v.concrete().map(|x| x.to_bits()).unwrap_or(0)));
        }
    }
    /// A fact that does not depend on symbolic values beyond the path condition.
    /// From here on comparisons against infinite / huge constants (`is_finite`, `x < f32::MAX`, ...) fork like any other
    /// comparison instead of assuming the value domain (-1e30, 1e30): for Float32-only cases about overflow.
    pub fn extreme_values(&mut self) {
        symrt::with(|a| a.extreme_forks = true);
    }
    pub fn fact(&mut self, role: &str, ok: bool, detail: String) {
        if !ok {
            self.push(role, Th::Real, B::True.not(), "fact", detail);
        } else {
            self.obls.push(Obl { role: role.to_string(), theory: Th::Real, assume: vec![], claim: B::True, kind: "fact-ok", fp_bound: None, detail });
        }
    }
    /// Run `f`, catching a panic of the library; `Err(message)` if it panicked.
    pub fn catch<T>(&mut self, f: impl FnOnce(&mut Ctx) -> T) -> Result<T, String> {
        let r = symrt::quiet(|| std::panic::catch_unwind(std::panic::AssertUnwindSafe(|| f(self))));
        match r {
            Ok(v) => Ok(v),
            Err(e) => {
                if e.downcast_ref::<symrt::NotEncodable>().is_some() {
                    std::panic::resume_unwind(e);
                }
                Err(symrt::panic_message(&*e))
            }
        }
    }
}
