//! SMT-LIB 2 printing of the DAG, in real arithmetic or IEEE Float32.

use super::{with, Cond, Node, Sf32, F1, R};
use std::collections::{BTreeSet, HashMap};

#[derive(Clone, Copy, PartialEq, Eq, Debug)]
pub enum Theory {
    Real,
    Fp,
}

pub struct Printer {
    pub theory: Theory,
    memo: HashMap<R, String>,
    cmemo: HashMap<u32, String>,
    defs: String,
    axioms: String,
    vars: BTreeSet<u32>,
    /// operand pairs of every comparison / max / min met (for "away from ties")
    pairs: Vec<(String, String)>,
    /// occurrences of uninterpreted functions: (function, printed argument)
    occ: Vec<(F1, String)>,
    occ_seen: std::collections::HashSet<(F1, R)>,
    pub error: Option<String>,
    /// nodes printed as free constants of the sort (sound abstraction for proving an identity: if the identity holds
    /// for every value of the abstracted sub-terms it holds for the values they really take)
    pub abstracted: std::collections::HashSet<R>,
}

fn pow2_decimal(k: u32) -> String {
    let mut d: Vec<u8> = vec![1];
    for _ in 0..k {
        let mut carry = 0;
        for x in d.iter_mut() {
            let v = *x * 2 + carry;
            *x = v % 10;
            carry = v / 10;
        }
        if carry > 0 {
            d.push(carry);
        }
    }
    d.iter().rev().map(|c| (b'0' + c) as char).collect()
}

/// Exact rational value of an f32 as an SMT-LIB real literal.
pub fn rat(bits: u32) -> Option<String> {
    let x = f32::from_bits(bits);
    if !x.is_finite() {
        return None;
    }
    if x == 0.0 {
        return Some("0.0".into());
    }
    let neg = x < 0.0;
    let b = x.abs().to_bits();
    let e = ((b >> 23) & 0xff) as i32;
    let m = (b & 0x7fffff) as u128;
    let (mut mant, mut exp) = if e == 0 { (m, -149) } else { (m | 0x800000, e - 150) };
    while mant % 2 == 0 && exp < 0 {
        mant /= 2;
        exp += 1;
    }
    let s = if exp >= 0 {
        if exp <= 100 {
            format!("{}.0", mant << exp as u32)
        } else {
            format!("(* {}.0 {}.0)", mant, pow2_decimal(exp as u32))
        }
    } else {
        format!("(/ {}.0 {}.0)", mant, pow2_decimal((-exp) as u32))
    };
    Some(if neg { format!("(- {})", s) } else { s })
}

pub fn fpc(bits: u32) -> String {
    let x = f32::from_bits(bits);
    if x.is_nan() {
        return "(_ NaN 8 24)".into();
    }
    format!("(fp #b{} #b{:08b} #b{:023b})", bits >> 31, (bits >> 23) & 0xff, bits & 0x7fffff)
}

impl Printer {
    pub fn new(theory: Theory) -> Printer {
        Printer {
            theory,
            memo: HashMap::new(),
            cmemo: HashMap::new(),
            defs: String::new(),
            axioms: String::new(),
            vars: BTreeSet::new(),
            pairs: Vec::new(),
            occ: Vec::new(),
            occ_seen: Default::default(),
            error: None,
            abstracted: Default::default(),
        }
    }

    fn sort(&self) -> &'static str {
        match self.theory {
            Theory::Real => "Real",
            Theory::Fp => "F",
        }
    }

    pub fn term(&mut self, s: Sf32) -> String {
        self.t(s.0)
    }

    fn t(&mut self, r: R) -> String {
        let id = match r {
            R::C(b) => {
                return match self.theory {
                    Theory::Real => match rat(b) {
                        Some(s) => s,
                        None => {
                            self.error = Some("non-finite constant in a real-arithmetic obligation".into());
                            "0.0".into()
                        }
                    },
                    Theory::Fp => fpc(b),
                }
            }
            R::N(i) => i,
        };
        if let Some(s) = self.memo.get(&r) {
            return s.clone();
        }
        if self.abstracted.contains(&r) {
            let name = format!("a{}", id);
            self.defs.push_str(&format!("(declare-const {} {})\n", name, self.sort()));
            self.memo.insert(r, name.clone());
            return name;
        }
        let node = with(|a| a.node(id));
        let fp = self.theory == Theory::Fp;
        let body = match node {
            Node::Var(k) => {
                self.vars.insert(k);
                let name = format!("v{}", k);
                self.memo.insert(r, name.clone());
                return name;
            }
            Node::Add(x, y) => {
                let (a, b) = (self.t(x), self.t(y));
                if fp { format!("(fp.add RNE {} {})", a, b) } else { format!("(+ {} {})", a, b) }
            }
            Node::Sub(x, y) => {
                let (a, b) = (self.t(x), self.t(y));
                if fp { format!("(fp.sub RNE {} {})", a, b) } else { format!("(- {} {})", a, b) }
            }
            Node::Mul(x, y) => {
                let (a, b) = (self.t(x), self.t(y));
                if fp { format!("(fp.mul RNE {} {})", a, b) } else { format!("(* {} {})", a, b) }
            }
            Node::Div(x, y) => {
                let (a, b) = (self.t(x), self.t(y));
                if fp { format!("(fp.div RNE {} {})", a, b) } else { format!("(/ {} {})", a, b) }
            }
            Node::Neg(x) => {
                let a = self.t(x);
                if fp { format!("(fp.neg {})", a) } else { format!("(- {})", a) }
            }
            Node::Max(x, y) => {
                let (a, b) = (self.t(x), self.t(y));
                self.pairs.push((a.clone(), b.clone()));
                if fp { format!("(fp.max {} {})", a, b) } else { format!("(ite (>= {0} {1}) {0} {1})", a, b) }
            }
            Node::Min(x, y) => {
                let (a, b) = (self.t(x), self.t(y));
                self.pairs.push((a.clone(), b.clone()));
                if fp { format!("(fp.min {} {})", a, b) } else { format!("(ite (<= {0} {1}) {0} {1})", a, b) }
            }
            Node::Ite(cd, t, e) => {
                let cs = self.cond(cd);
                let (a, b) = (self.t(t), self.t(e));
                format!("(ite {} {} {})", cs, a, b)
            }
            Node::F(F1::Sqrt, x) if fp => format!("(fp.sqrt RNE {})", self.t(x)),
            Node::F(F1::Abs, x) => {
                let a = self.t(x);
                if fp { format!("(fp.abs {})", a) } else { format!("(ite (< {0} 0.0) (- {0}) {0})", a) }
            }
            Node::F(F1::Signum, x) => {
                let a = self.t(x);
                if fp {
                    format!("(ite (fp.isNaN {0}) (_ NaN 8 24) (ite (fp.isNegative {0}) (fp.neg one) one))", a)
                } else {
                    format!("(ite (< {0} 0.0) (- 1.0) 1.0)", a)
                }
            }
            Node::F(k @ (F1::Floor | F1::Ceil | F1::Trunc | F1::Round), x) => {
                let a = self.t(x);
                if fp {
                    let mode = match k {
                        F1::Floor => "RTN",
                        F1::Ceil => "RTP",
                        F1::Trunc => "RTZ",
                        _ => "RNA",
                    };
                    format!("(fp.roundToIntegral {} {})", mode, a)
                } else {
                    let floor = |t: &str| format!("(to_real (to_int {}))", t);
                    let ceil = |t: &str| format!("(- (to_real (to_int (- {}))))", t);
                    match k {
                        F1::Floor => floor(&a),
                        F1::Ceil => ceil(&a),
                        F1::Trunc => format!("(ite (>= {0} 0.0) {1} {2})", a, floor(&a), ceil(&a)),
                        _ => format!("(ite (>= {0} 0.0) {1} {2})", a, floor(&format!("(+ {} 0.5)", a)), ceil(&format!("(- {} 0.5)", a))),
                    }
                }
            }
            Node::F(k, x) => {
                let a = self.t(x);
                let f = match k {
                    F1::Exp => "f_exp",
                    F1::Ln => "f_ln",
                    F1::Sqrt => "f_sqrt",
                    F1::Tanh => "f_tanh",
                    F1::Cosh => "f_cosh",
                    F1::Abs | F1::Signum | F1::Floor | F1::Ceil | F1::Trunc | F1::Round => unreachable!(),
                };
                if self.occ_seen.insert((k, x)) {
                    self.occ.push((k, a.clone()));
                    // tanh and cosh axioms mention each other at the same argument
                }
                format!("({} {})", f, a)
            }
        };
        let name = format!("n{}", id);
        self.defs.push_str(&format!("(define-fun {} () {} {})\n", name, self.sort(), body));
        self.memo.insert(r, name.clone());
        name
    }

    pub fn cond(&mut self, cd: u32) -> String {
        if let Some(s) = self.cmemo.get(&cd) {
            return s.clone();
        }
        let c = with(|a| a.conds[cd as usize]);
        let (x, y) = c.operands();
        let (a, b) = (self.t(x), self.t(y));
        if !matches!(c, Cond::Eq(..)) {
            self.pairs.push((a.clone(), b.clone()));
        }
        let fp = self.theory == Theory::Fp;
        let s = match (c, fp) {
            (Cond::Lt(..), false) => format!("(< {} {})", a, b),
            (Cond::Le(..), false) => format!("(<= {} {})", a, b),
            (Cond::Eq(..), false) => format!("(= {} {})", a, b),
            (Cond::Lt(..), true) => format!("(fp.lt {} {})", a, b),
            (Cond::Le(..), true) => format!("(fp.leq {} {})", a, b),
            (Cond::Eq(..), true) => format!("(fp.eq {} {})", a, b),
        };
        self.cmemo.insert(cd, s.clone());
        s
    }

    /// `(assert …)` lines for a list of decisions.
    pub fn assert_decisions(&mut self, ds: &[(u32, bool)]) -> String {
        let mut out = String::new();
        for &(cd, v) in ds {
            let s = self.cond(cd);
            out.push_str(&format!("(assert {})\n", if v { s } else { format!("(not {})", s) }));
        }
        out
    }

    fn uf_axioms(&mut self) -> String {
        let mut ax = String::new();
        let occ = self.occ.clone();
        match self.theory {
            Theory::Real => {
                for (k, x) in occ.iter() {
                    match k {
                        F1::Exp => ax.push_str(&format!(
                            "(assert (and (> (f_exp {0}) 0.0) (=> (= {0} 0.0) (= (f_exp {0}) 1.0)) (=> (> {0} 0.0) (> (f_exp {0}) 1.0)) (=> (< {0} 0.0) (< (f_exp {0}) 1.0))))\n",
                            x
                        )),
                        F1::Sqrt => ax.push_str(&format!(
                            "(assert (and (>= (f_sqrt {0}) 0.0) (= (* (f_sqrt {0}) (f_sqrt {0})) {0})))\n",
                            x
                        )),
                        F1::Tanh | F1::Cosh => ax.push_str(&format!(
                            "(assert (and (>= (f_cosh {0}) 1.0) (< (f_tanh {0}) 1.0) (> (f_tanh {0}) (- 1.0)) (= (* (* (f_cosh {0}) (f_cosh {0})) (- 1.0 (* (f_tanh {0}) (f_tanh {0})))) 1.0) (=> (= {0} 0.0) (and (= (f_tanh {0}) 0.0) (= (f_cosh {0}) 1.0))) (=> (> {0} 0.0) (> (f_tanh {0}) 0.0)) (=> (< {0} 0.0) (< (f_tanh {0}) 0.0))))\n",
                            x
                        )),
                        F1::Ln => ax.push_str(&format!(
                            "(assert (=> (> {0} 0.0) (and (=> (>= {0} 1.0) (>= (f_ln {0}) 0.0)) (=> (<= {0} 1.0) (<= (f_ln {0}) 0.0)) (=> (= {0} 1.0) (= (f_ln {0}) 0.0)))))\n",
                            x
                        )),
                        F1::Abs | F1::Signum | F1::Floor | F1::Ceil | F1::Trunc | F1::Round => {}
                    }
                }
            }
            Theory::Fp => {
                for (k, x) in occ.iter() {
                    let (x, t) = (x.clone(), match k {
                        F1::Exp => format!("(f_exp {})", x),
                        F1::Ln => format!("(f_ln {})", x),
                        F1::Tanh => format!("(f_tanh {})", x),
                        F1::Cosh => format!("(f_cosh {})", x),
                        _ => continue,
                    });
                    match k {
                        F1::Exp => ax.push_str(&format!(
                            "(assert (ite (fp.isNaN {x}) (fp.isNaN {t}) (and (not (fp.isNaN {t})) (fp.geq {t} zero) (=> (fp.leq {x} zero) (fp.leq {t} one)) (=> (fp.isZero {x}) (= {t} one)) (=> (fp.geq {x} zero) (fp.geq {t} one)) (=> (and (fp.isInfinite {x}) (fp.isNegative {x})) (fp.isZero {t})) (=> (and (fp.isInfinite {x}) (fp.isPositive {x})) (fp.isInfinite {t})) (=> (fp.leq {x} expmax) (not (fp.isInfinite {t}))))))\n",
                            x = x, t = t
                        )),
                        _ => {}
                    }
                    if *k == F1::Exp {
                        // bracket table (monotone expf within a few ulps of the true value — the contract of every libm in
                        // use; replay on the real build is the arbiter): x <= c  =>  exp x <= up(e^c),  x >= c  =>  exp x >= down(e^c)
                        for (c, lo, hi) in exp_brackets().iter() {
                            ax.push_str(&format!(
                                "(assert (=> (fp.leq {x} {c}) (fp.leq {t} {hi})))\n(assert (=> (fp.geq {x} {c}) (fp.geq {t} {lo})))\n",
                                x = x, t = t, c = fp_const(*c), lo = fp_const(*lo), hi = fp_const(*hi)
                            ));
                        }
                        ax.push_str(&format!(
                            "(assert (=> (fp.geq {x} {a}) (and (fp.isInfinite {t}) (fp.isPositive {t}))))\n(assert (=> (fp.leq {x} {b}) (fp.isZero {t})))\n",
                            x = x, t = t, a = fp_const(88.8), b = fp_const(-104.5)
                        ));
                    }
                    match k {
                        F1::Tanh => ax.push_str(&format!(
                            "(assert (ite (fp.isNaN {x}) (fp.isNaN {t}) (and (not (fp.isNaN {t})) (fp.leq {t} one) (fp.geq {t} (fp.neg one)) (=> (fp.geq {x} zero) (fp.geq {t} zero)) (=> (fp.leq {x} zero) (fp.leq {t} zero)))))\n",
                            x = x, t = t
                        )),
                        F1::Cosh => ax.push_str(&format!(
                            "(assert (ite (fp.isNaN {x}) (fp.isNaN {t}) (and (not (fp.isNaN {t})) (fp.geq {t} one))))\n",
                            x = x, t = t
                        )),
                        F1::Ln => ax.push_str(&format!(
                            "(assert (ite (or (fp.isNaN {x}) (fp.lt {x} zero)) (fp.isNaN {t}) (ite (fp.isZero {x}) (and (fp.isInfinite {t}) (fp.isNegative {t})) (ite (fp.isInfinite {x}) (and (fp.isInfinite {t}) (fp.isPositive {t})) (and (not (fp.isNaN {t})) (fp.geq {t} lnmin) (fp.leq {t} lnmax) (=> (fp.geq {x} one) (fp.geq {t} zero)) (=> (fp.leq {x} one) (fp.leq {t} zero)) (=> (= {x} one) (fp.isZero {t})))))))\n",
                            x = x, t = t
                        )),
                        _ => {}
                    }
                }
                // monotonicity of exp and ln between occurrences (libm contract; stated assumption)
                for (i, (k1, x1)) in occ.iter().enumerate() {
                    for (k2, x2) in occ.iter().skip(i + 1) {
                        if k1 == k2 && (*k1 == F1::Exp || *k1 == F1::Ln) && occ.len() <= 8 {
                            let f = if *k1 == F1::Exp { "f_exp" } else { "f_ln" };
                            ax.push_str(&format!(
                                "(assert (=> (fp.leq {a} {b}) (or (fp.isNaN ({f} {a})) (fp.isNaN ({f} {b})) (fp.leq ({f} {a}) ({f} {b})))))\n(assert (=> (fp.leq {b} {a}) (or (fp.isNaN ({f} {a})) (fp.isNaN ({f} {b})) (fp.leq ({f} {b}) ({f} {a})))))\n",
                                a = x1, b = x2, f = f
                            ));
                        }
                    }
                }
            }
        }
        ax
    }

    /// Assemble the query. `var_bound`: FP only — every variable finite and `|v| <= bound` if given.
    /// `no_ties`: assert `a != b` for the operands of every comparison / max / min printed.
    pub fn finish(mut self, body: &str, no_ties: bool, var_bound: Option<f32>) -> (String, Vec<String>) {
        let ax = self.uf_axioms();
        let mut out = String::from("(set-logic ALL)\n");
        match self.theory {
            Theory::Real => {
                out.push_str("(declare-fun f_exp (Real) Real)\n(declare-fun f_ln (Real) Real)\n(declare-fun f_sqrt (Real) Real)\n(declare-fun f_tanh (Real) Real)\n(declare-fun f_cosh (Real) Real)\n");
            }
            Theory::Fp => {
                out.push_str("(define-sort F () (_ FloatingPoint 8 24))\n(define-fun one () F ((_ to_fp 8 24) RNE 1.0))\n(define-fun zero () F ((_ to_fp 8 24) RNE 0.0))\n");
                // expf does not overflow up to 88.72 (ln(FLT_MAX)); lnf of a finite positive float lies in [-103.98, 88.73]
                out.push_str("(define-fun expmax () F ((_ to_fp 8 24) RNE 88.0))\n(define-fun lnmin () F ((_ to_fp 8 24) RNE (- 104.0)))\n(define-fun lnmax () F ((_ to_fp 8 24) RNE 89.0))\n");
                out.push_str("(declare-fun f_exp (F) F)\n(declare-fun f_ln (F) F)\n(declare-fun f_tanh (F) F)\n(declare-fun f_cosh (F) F)\n");
            }
        }
        let names: Vec<String> = with(|a| self.vars.iter().map(|k| a.var_names[*k as usize].clone()).collect());
        for k in self.vars.iter() {
            match self.theory {
                Theory::Real => out.push_str(&format!("(declare-const v{} Real)\n", k)),
                Theory::Fp => {
                    if var_bound == Some(f32::INFINITY) {
                        // the extended line: every float except NaN, +inf and -inf included
                        out.push_str(&format!("(declare-const v{0} F)\n(assert (not (fp.isNaN v{0})))\n", k));
                        continue;
                    }
                    out.push_str(&format!(
                        "(declare-const v{0} F)\n(assert (not (or (fp.isNaN v{0}) (fp.isInfinite v{0}))))\n",
                        k
                    ));
                    if let Some(b) = var_bound {
                        out.push_str(&format!("(assert (fp.leq (fp.abs v{}) {}))\n", k, fpc(b.to_bits())));
                    }
                }
            }
        }
        out.push_str(&self.defs);
        out.push_str(&ax);
        if no_ties {
            let mut seen = std::collections::HashSet::new();
            for (a, b) in self.pairs.iter() {
                if a == b || !seen.insert((a.clone(), b.clone())) {
                    continue;
                }
                match self.theory {
                    Theory::Real => out.push_str(&format!("(assert (not (= {} {})))\n", a, b)),
                    Theory::Fp => out.push_str(&format!("(assert (not (fp.eq {} {})))\n", a, b)),
                }
            }
        }
        out.push_str(body);
        // `(check-sat)` / `(get-value …)` are appended by the solver driver
        (out, names)
    }

    /// names of the SMT constants, parallel to the variable names returned by `finish`
    pub fn var_symbols(&self) -> Vec<String> {
        self.vars.iter().map(|k| format!("v{}", k)).collect()
    }
}


/// an f32 constant as an SMT-LIB Float32 literal (bit pattern)
pub fn fp_const(v: f32) -> String {
    let b = v.to_bits();
    format!("(fp #b{:01b} #b{:08b} #b{:023b})", b >> 31, (b >> 23) & 0xff, b & 0x7fffff)
}

/// (c, down(e^c), up(e^c)) with 2 ulps of slack on either side
pub fn exp_brackets() -> Vec<(f32, f32, f32)> {
    // only where single precision runs out: underflow to 0 below about -103.97, overflow above about 88.72
    let cs: [f32; 16] = [-104.0, -103.0, -102.0, -101.0, -100.0, -95.0, -90.0, -88.0, -87.0, 80.0, 87.0, 87.5, 87.75, 88.0, 88.5, 88.7];
    cs.iter()
        .map(|&c| {
            let e = (c as f64).exp();
            let mid = e as f32;
            let step = |v: f32, n: i32| -> f32 {
                if !v.is_finite() {
                    return v;
                }
                let b = v.to_bits() as i64 + n as i64;
                if b < 0 {
                    0.0
                } else {
                    let r = f32::from_bits(b as u32);
                    if r.is_nan() {
                        f32::INFINITY
                    } else {
                        r
                    }
                }
            };
            (c, step(mid, -2), step(mid, 2))
        })
        .collect()
}
