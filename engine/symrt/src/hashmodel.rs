//! Contract model of `std::collections::{HashMap, HashSet}` for the shadow build.
//!
//! What the standard library documents and nothing more: the *content* of a hash collection is determined by the
//! operations applied to it; the *iteration order* is arbitrary ("in arbitrary order"). With the default `RandomState`
//! every instance draws fresh hash keys, so two collections with the same content — in two runs of the same program, or
//! built one after the other inside one run — may be walked in different orders. A result that depends on the order
//! therefore differs between "repeated runs from the same weights and data" (C05).
//!
//! Model: elements are kept in insertion order; the order in which `iter`/`keys`/`values`/`into_iter`/`drain` visit
//! them is one permutation **per instance**, drawn on first use and kept until the collection is modified (an unmodified
//! table is walked the same way every time; a clone copies the table and so keeps its order):
//!  * `Order::Insertion` — insertion order (every check except C05, and the reference side of C05),
//!  * `Order::Reversed`  — reverse insertion order,
//!  * `Order::Explore`   — any permutation for up to 3 elements, four representative ones above (stated bound),
//!                         enumerated through the decision vector like the rayon schedules.

use std::borrow::Borrow;
use std::cell::Cell;
use std::sync::Mutex;
use std::fmt;

pub use std::collections::{BTreeMap, BTreeSet, BinaryHeap, LinkedList, VecDeque};

pub mod hash_map {
    pub use super::{Entry, HashMap, OccupiedEntry, VacantEntry};
}
pub mod hash_set {
    pub use super::HashSet;
}

#[derive(Clone, Copy, PartialEq, Eq, Debug)]
pub enum Order {
    Insertion,
    Reversed,
    Explore,
}

thread_local! {
    static ORDER: Cell<Order> = Cell::new(Order::Insertion);
    static ITERATIONS: Cell<usize> = Cell::new(0);
}

pub fn set_order(o: Order) {
    ORDER.with(|c| c.set(o));
}

pub fn order() -> Order {
    ORDER.with(|c| c.get())
}

/// number of order-sensitive walks over a collection with two or more elements on this thread
pub fn iterations() -> usize {
    ITERATIONS.with(|c| c.get())
}

fn draw(n: usize) -> Vec<usize> {
    if n < 2 {
        return (0..n).collect();
    }
    match order() {
        Order::Insertion => (0..n).collect(),
        Order::Reversed => (0..n).rev().collect(),
        Order::Explore if n > 3 => match crate::choice(4) {
            0 => (0..n).collect(),
            1 => (0..n).rev().collect(),
            2 => (1..n).chain(0..1).collect(),
            _ => {
                let mut v: Vec<usize> = (0..n).collect();
                v.swap(0, 1);
                v
            }
        },
        Order::Explore => {
            let mut rest: Vec<usize> = (0..n).collect();
            let mut out = Vec::with_capacity(n);
            while !rest.is_empty() {
                let k = crate::choice(rest.len());
                out.push(rest.remove(k));
            }
            out
        }
    }
}

// ------------------------------------------------------------------------------------------------

pub struct HashMap<K, V> {
    items: Vec<(K, V)>,
    walk: Mutex<Option<Vec<usize>>>,
}

impl<K, V> HashMap<K, V> {
    pub fn new() -> Self {
        HashMap { items: Vec::new(), walk: Mutex::new(None) }
    }
    pub fn with_capacity(_n: usize) -> Self {
        Self::new()
    }
    pub fn len(&self) -> usize {
        self.items.len()
    }
    pub fn is_empty(&self) -> bool {
        self.items.is_empty()
    }
    pub fn clear(&mut self) {
        self.items.clear();
        *self.walk.lock().unwrap() = None;
    }
    fn touched(&mut self) {
        *self.walk.lock().unwrap() = None;
    }
    fn walk(&self) -> Vec<usize> {
        let mut w = self.walk.lock().unwrap();
        if w.as_ref().map(|v| v.len() != self.items.len()).unwrap_or(true) {
            *w = Some(draw(self.items.len()));
        }
        if self.items.len() >= 2 {
            ITERATIONS.with(|c| c.set(c.get() + 1));
        }
        w.clone().unwrap()
    }
    pub fn iter(&self) -> std::vec::IntoIter<(&K, &V)> {
        let w = self.walk();
        w.iter().map(|&i| (&self.items[i].0, &self.items[i].1)).collect::<Vec<_>>().into_iter()
    }
    pub fn iter_mut(&mut self) -> std::vec::IntoIter<(&K, &mut V)> {
        let w = self.walk();
        let mut slots: Vec<Option<(&K, &mut V)>> = self.items.iter_mut().map(|(k, v)| Some((&*k, v))).collect();
        w.iter().map(|&i| slots[i].take().unwrap()).collect::<Vec<_>>().into_iter()
    }
    pub fn keys(&self) -> std::vec::IntoIter<&K> {
        self.iter().map(|(k, _)| k).collect::<Vec<_>>().into_iter()
    }
    pub fn values(&self) -> std::vec::IntoIter<&V> {
        self.iter().map(|(_, v)| v).collect::<Vec<_>>().into_iter()
    }
    pub fn values_mut(&mut self) -> std::vec::IntoIter<&mut V> {
        self.iter_mut().map(|(_, v)| v).collect::<Vec<_>>().into_iter()
    }
    pub fn drain(&mut self) -> std::vec::IntoIter<(K, V)> {
        let w = self.walk();
        let mut slots: Vec<Option<(K, V)>> = std::mem::take(&mut self.items).into_iter().map(Some).collect();
        self.touched();
        w.iter().map(|&i| slots[i].take().unwrap()).collect::<Vec<_>>().into_iter()
    }
    pub fn retain<F: FnMut(&K, &mut V) -> bool>(&mut self, mut f: F) {
        // the visiting order of `retain` is unspecified as well; the predicate is applied in the walk order
        let w = self.walk();
        let mut keep = vec![true; self.items.len()];
        for &i in w.iter() {
            let (k, v) = &mut self.items[i];
            keep[i] = f(k, v);
        }
        let mut it = keep.into_iter();
        self.items.retain(|_| it.next().unwrap());
        self.touched();
    }
}

impl<K: Eq, V> HashMap<K, V> {
    fn find<Q: ?Sized + Eq>(&self, k: &Q) -> Option<usize>
    where
        K: Borrow<Q>,
    {
        self.items.iter().position(|(x, _)| x.borrow() == k)
    }
    pub fn insert(&mut self, k: K, v: V) -> Option<V> {
        match self.find(&k) {
            Some(i) => Some(std::mem::replace(&mut self.items[i].1, v)),
            None => {
                self.items.push((k, v));
                self.touched();
                None
            }
        }
    }
    pub fn get<Q: ?Sized + Eq>(&self, k: &Q) -> Option<&V>
    where
        K: Borrow<Q>,
    {
        self.find(k).map(|i| &self.items[i].1)
    }
    pub fn get_mut<Q: ?Sized + Eq>(&mut self, k: &Q) -> Option<&mut V>
    where
        K: Borrow<Q>,
    {
        match self.find(k) {
            Some(i) => Some(&mut self.items[i].1),
            None => None,
        }
    }
    pub fn get_key_value<Q: ?Sized + Eq>(&self, k: &Q) -> Option<(&K, &V)>
    where
        K: Borrow<Q>,
    {
        self.find(k).map(|i| (&self.items[i].0, &self.items[i].1))
    }
    pub fn contains_key<Q: ?Sized + Eq>(&self, k: &Q) -> bool
    where
        K: Borrow<Q>,
    {
        self.find(k).is_some()
    }
    pub fn remove<Q: ?Sized + Eq>(&mut self, k: &Q) -> Option<V>
    where
        K: Borrow<Q>,
    {
        match self.find(k) {
            Some(i) => {
                self.touched();
                Some(self.items.remove(i).1)
            }
            None => None,
        }
    }
    pub fn entry(&mut self, k: K) -> Entry<'_, K, V> {
        match self.find(&k) {
            Some(i) => Entry::Occupied(OccupiedEntry { map: self, at: i }),
            None => Entry::Vacant(VacantEntry { map: self, key: k }),
        }
    }
    pub fn extend<I: IntoIterator<Item = (K, V)>>(&mut self, it: I) {
        for (k, v) in it {
            self.insert(k, v);
        }
    }
}

pub enum Entry<'a, K, V> {
    Occupied(OccupiedEntry<'a, K, V>),
    Vacant(VacantEntry<'a, K, V>),
}

pub struct OccupiedEntry<'a, K, V> {
    map: &'a mut HashMap<K, V>,
    at: usize,
}

pub struct VacantEntry<'a, K, V> {
    map: &'a mut HashMap<K, V>,
    key: K,
}

impl<'a, K, V> OccupiedEntry<'a, K, V> {
    pub fn get(&self) -> &V {
        &self.map.items[self.at].1
    }
    pub fn get_mut(&mut self) -> &mut V {
        &mut self.map.items[self.at].1
    }
    pub fn into_mut(self) -> &'a mut V {
        &mut self.map.items[self.at].1
    }
    pub fn insert(&mut self, v: V) -> V {
        std::mem::replace(&mut self.map.items[self.at].1, v)
    }
}

impl<'a, K, V> VacantEntry<'a, K, V> {
    pub fn insert(self, v: V) -> &'a mut V {
        self.map.items.push((self.key, v));
        *self.map.walk.lock().unwrap() = None;
        &mut self.map.items.last_mut().unwrap().1
    }
}

impl<'a, K, V> Entry<'a, K, V> {
    pub fn or_insert(self, v: V) -> &'a mut V {
        match self {
            Entry::Occupied(o) => o.into_mut(),
            Entry::Vacant(e) => e.insert(v),
        }
    }
    pub fn or_insert_with<F: FnOnce() -> V>(self, f: F) -> &'a mut V {
        match self {
            Entry::Occupied(o) => o.into_mut(),
            Entry::Vacant(e) => e.insert(f()),
        }
    }
    pub fn or_default(self) -> &'a mut V
    where
        V: Default,
    {
        self.or_insert_with(V::default)
    }
    pub fn and_modify<F: FnOnce(&mut V)>(mut self, f: F) -> Self {
        if let Entry::Occupied(o) = &mut self {
            f(o.get_mut());
        }
        self
    }
}

impl<K, V> Default for HashMap<K, V> {
    fn default() -> Self {
        Self::new()
    }
}

impl<K: Clone, V: Clone> Clone for HashMap<K, V> {
    fn clone(&self) -> Self {
        HashMap { items: self.items.clone(), walk: Mutex::new(self.walk.lock().unwrap().clone()) }
    }
}

impl<K: fmt::Debug, V: fmt::Debug> fmt::Debug for HashMap<K, V> {
    fn fmt(&self, f: &mut fmt::Formatter<'_>) -> fmt::Result {
        f.debug_map().entries(self.items.iter().map(|(k, v)| (k, v))).finish()
    }
}

impl<K: Eq, V: PartialEq> PartialEq for HashMap<K, V> {
    fn eq(&self, other: &Self) -> bool {
        self.len() == other.len() && self.items.iter().all(|(k, v)| other.get(k).map(|w| v == w).unwrap_or(false))
    }
}

impl<K: Eq, V: Eq> Eq for HashMap<K, V> {}

impl<K: Eq + Borrow<Q>, Q: ?Sized + Eq, V> std::ops::Index<&Q> for HashMap<K, V> {
    type Output = V;
    fn index(&self, k: &Q) -> &V {
        self.get(k).expect("no entry found for key")
    }
}

impl<K: Eq, V> FromIterator<(K, V)> for HashMap<K, V> {
    fn from_iter<I: IntoIterator<Item = (K, V)>>(it: I) -> Self {
        let mut m = HashMap::new();
        for (k, v) in it {
            m.insert(k, v);
        }
        m
    }
}

impl<K: Eq, V, const N: usize> From<[(K, V); N]> for HashMap<K, V> {
    fn from(a: [(K, V); N]) -> Self {
        a.into_iter().collect()
    }
}

impl<K, V> IntoIterator for HashMap<K, V> {
    type Item = (K, V);
    type IntoIter = std::vec::IntoIter<(K, V)>;
    fn into_iter(self) -> Self::IntoIter {
        let w = self.walk();
        let mut slots: Vec<Option<(K, V)>> = self.items.into_iter().map(Some).collect();
        w.iter().map(|&i| slots[i].take().unwrap()).collect::<Vec<_>>().into_iter()
    }
}

impl<'a, K, V> IntoIterator for &'a HashMap<K, V> {
    type Item = (&'a K, &'a V);
    type IntoIter = std::vec::IntoIter<(&'a K, &'a V)>;
    fn into_iter(self) -> Self::IntoIter {
        self.iter()
    }
}

impl<'a, K, V> IntoIterator for &'a mut HashMap<K, V> {
    type Item = (&'a K, &'a mut V);
    type IntoIter = std::vec::IntoIter<(&'a K, &'a mut V)>;
    fn into_iter(self) -> Self::IntoIter {
        self.iter_mut()
    }
}

// ------------------------------------------------------------------------------------------------

pub struct HashSet<T> {
    map: HashMap<T, ()>,
}

impl<T> HashSet<T> {
    pub fn new() -> Self {
        HashSet { map: HashMap::new() }
    }
    pub fn with_capacity(_n: usize) -> Self {
        Self::new()
    }
    pub fn len(&self) -> usize {
        self.map.len()
    }
    pub fn is_empty(&self) -> bool {
        self.map.is_empty()
    }
    pub fn clear(&mut self) {
        self.map.clear()
    }
    pub fn iter(&self) -> std::vec::IntoIter<&T> {
        self.map.keys()
    }
    pub fn drain(&mut self) -> std::vec::IntoIter<T> {
        self.map.drain().map(|(k, _)| k).collect::<Vec<_>>().into_iter()
    }
    pub fn retain<F: FnMut(&T) -> bool>(&mut self, mut f: F) {
        self.map.retain(|k, _| f(k))
    }
}

impl<T: Eq> HashSet<T> {
    pub fn insert(&mut self, t: T) -> bool {
        if self.map.contains_key(&t) {
            false
        } else {
            self.map.insert(t, ());
            true
        }
    }
    pub fn contains<Q: ?Sized + Eq>(&self, t: &Q) -> bool
    where
        T: Borrow<Q>,
    {
        self.map.contains_key(t)
    }
    pub fn get<Q: ?Sized + Eq>(&self, t: &Q) -> Option<&T>
    where
        T: Borrow<Q>,
    {
        self.map.get_key_value(t).map(|(k, _)| k)
    }
    pub fn remove<Q: ?Sized + Eq>(&mut self, t: &Q) -> bool
    where
        T: Borrow<Q>,
    {
        self.map.remove(t).is_some()
    }
    pub fn extend<I: IntoIterator<Item = T>>(&mut self, it: I) {
        for t in it {
            self.insert(t);
        }
    }
    pub fn is_subset(&self, other: &HashSet<T>) -> bool {
        self.map.items.iter().all(|(k, _)| other.contains(k))
    }
    pub fn is_superset(&self, other: &HashSet<T>) -> bool {
        other.is_subset(self)
    }
    pub fn is_disjoint(&self, other: &HashSet<T>) -> bool {
        self.map.items.iter().all(|(k, _)| !other.contains(k))
    }
}

impl<T> Default for HashSet<T> {
    fn default() -> Self {
        Self::new()
    }
}

impl<T: Clone> Clone for HashSet<T> {
    fn clone(&self) -> Self {
        HashSet { map: self.map.clone() }
    }
}

impl<T: fmt::Debug> fmt::Debug for HashSet<T> {
    fn fmt(&self, f: &mut fmt::Formatter<'_>) -> fmt::Result {
        f.debug_set().entries(self.map.items.iter().map(|(k, _)| k)).finish()
    }
}

impl<T: Eq> PartialEq for HashSet<T> {
    fn eq(&self, other: &Self) -> bool {
        self.len() == other.len() && self.is_subset(other)
    }
}

impl<T: Eq> Eq for HashSet<T> {}

impl<T: Eq> FromIterator<T> for HashSet<T> {
    fn from_iter<I: IntoIterator<Item = T>>(it: I) -> Self {
        let mut s = HashSet::new();
        for t in it {
            s.insert(t);
        }
        s
    }
}

impl<T: Eq, const N: usize> From<[T; N]> for HashSet<T> {
    fn from(a: [T; N]) -> Self {
        a.into_iter().collect()
    }
}

impl<T> IntoIterator for HashSet<T> {
    type Item = T;
    type IntoIter = std::vec::IntoIter<T>;
    fn into_iter(self) -> Self::IntoIter {
        self.map.into_iter().map(|(k, _)| k).collect::<Vec<_>>().into_iter()
    }
}

impl<'a, T> IntoIterator for &'a HashSet<T> {
    type Item = &'a T;
    type IntoIter = std::vec::IntoIter<&'a T>;
    fn into_iter(self) -> Self::IntoIter {
        self.iter()
    }
}

#[cfg(test)]
mod tests {
    use super::*;

    #[test]
    fn map_behaves_like_a_map() {
        let mut m: HashMap<usize, Vec<usize>> = HashMap::new();
        m.entry(3).or_default().push(1);
        m.entry(3).or_default().push(2);
        m.insert(5, vec![9]);
        assert_eq!(m[&3], vec![1, 2]);
        assert_eq!(m.get(&5).unwrap(), &vec![9]);
        assert!(m.contains_key(&5) && !m.contains_key(&4));
        assert_eq!(m.len(), 2);
        assert_eq!(m.iter().map(|(k, _)| *k).collect::<Vec<_>>(), vec![3, 5]);
        set_order(Order::Reversed);
        let n = m.clone(); // the clone keeps the order already drawn
        assert_eq!(n.iter().map(|(k, _)| *k).collect::<Vec<_>>(), vec![3, 5]);
        let mut o: HashMap<usize, usize> = HashMap::new();
        o.insert(1, 1);
        o.insert(2, 2);
        assert_eq!(o.keys().copied().collect::<Vec<_>>(), vec![2, 1]);
        set_order(Order::Insertion);
        assert_eq!(m.remove(&3), Some(vec![1, 2]));
        assert_eq!(m.len(), 1);
    }

    #[test]
    fn set_behaves_like_a_set() {
        let mut s: HashSet<usize> = HashSet::new();
        assert!(s.insert(4));
        assert!(!s.insert(4));
        assert!(s.insert(7));
        assert!(s.contains(&7) && !s.contains(&1));
        assert_eq!(s.iter().copied().collect::<Vec<_>>(), vec![4, 7]);
        assert_eq!(s.iter().filter(|t| **t != 4).count(), 1);
    }
}
