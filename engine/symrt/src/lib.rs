//! symrt — the symbolic single-precision scalar used to execute the `neurons` crate symbolically.
//!
//! `Sf32` mirrors the `f32` API surface. Arithmetic on two constants is performed in real `f32`
//! (bit-identical to the native crate); anything else allocates a node in a hash-consed DAG.
//! Comparisons of symbolic values are *decisions*: they take their truth value from the current
//! decision vector and are appended to the path condition. `explore` re-runs a closure over all
//! decision vectors (re-execution symbolic execution).
//!
//! The DAG can be printed in two SMT theories: reals (`Theory::Real`, algebraic properties) and
//! IEEE Float32 (`Theory::Fp`, one `fp.*` operation per node in evaluation order).

use std::cell::RefCell;
use std::cmp::Ordering;
use std::collections::{BTreeSet, HashMap};
use std::fmt;
use std::ops::*;

pub mod hashmodel;
pub mod print;
pub use print::{Printer, Theory};

// ------------------------------------------------------------------------------------------------
// representation

/// Structural handle: a constant (raw bits) or a DAG node id.
#[derive(Clone, Copy, Hash, PartialEq, Eq, Debug, PartialOrd, Ord)]
pub enum R {
    C(u32),
    N(u32),
}

#[derive(Clone, Copy, Hash, PartialEq, Eq, Debug)]
pub enum F1 {
    Exp,
    Ln,
    Sqrt,
    Tanh,
    Cosh,
    Abs,
    /// `f32::signum`: 1.0 for positive values and +0.0, -1.0 for negative values and -0.0, NaN for NaN
    Signum,
    /// `f32::floor`, `ceil`, `trunc`, `round` (half away from zero)
    Floor,
    Ceil,
    Trunc,
    Round,
}

#[derive(Clone, Copy, Hash, PartialEq, Eq, Debug)]
pub enum Node {
    Var(u32),
    Add(R, R),
    Sub(R, R),
    Mul(R, R),
    Div(R, R),
    Neg(R),
    Max(R, R),
    Min(R, R),
    /// `Ite(cond id, then, else)`
    Ite(u32, R, R),
    F(F1, R),
}

#[derive(Clone, Copy, Hash, PartialEq, Eq, Debug)]
pub enum Cond {
    Lt(R, R),
    Le(R, R),
    Eq(R, R),
}

impl Cond {
    pub fn operands(&self) -> (R, R) {
        match *self {
            Cond::Lt(a, b) | Cond::Le(a, b) | Cond::Eq(a, b) => (a, b),
        }
    }
}

#[derive(Default)]
pub struct Arena {
    pub nodes: Vec<Node>,
    /// value of a *closed* node (no variables below it), evaluated in native f32; `None` for open nodes
    pub closed: Vec<Option<f32>>,
    /// fold every constant operation (seeded translator-validation runs); otherwise only exact results are folded,
    /// so that the real-arithmetic reading of a trace never contains a rounded constant
    pub fold_inexact: bool,
    intern: HashMap<Node, u32>,
    pub conds: Vec<Cond>,
    cintern: HashMap<Cond, u32>,
    pub var_names: Vec<String>,
    var_intern: HashMap<String, u32>,
    // --- path exploration state
    prefix: Vec<bool>,
    pos: usize,
    /// decisions on symbolic comparisons taken on this run: (cond id, value)
    pub taken: Vec<(u32, bool)>,
    /// free (scheduling) decisions taken on this run
    pub free: Vec<bool>,
    /// domain assumptions made on this run (comparisons against extreme constants): (cond id, value)
    pub domain: Vec<(u32, bool)>,
    /// harness-registered assumptions: (cond id, value); consulted before forking
    pub assumed: Vec<(u32, bool)>,
    /// when set, a decision that is not forced panics with `NotEncodable`
    pub forbid_forks: bool,
    /// comparisons against infinite / huge constants fork like any other comparison instead of assuming the value
    /// domain (-1e30, 1e30) — for Float32-only cases about overflow
    pub extreme_forks: bool,
    /// "away from kinks and ties": `a == b` is never taken for symbolic operands and `!(a < b)` means `b < a`
    pub no_ties: bool,
    pub max_decisions: usize,
}

thread_local! {
    pub static ARENA: RefCell<Arena> = RefCell::new(Arena { max_decisions: 4096, ..Default::default() });
}

pub fn set_fold_inexact(on: bool) {
    with(|a| a.fold_inexact = on)
}

pub fn with<T>(f: impl FnOnce(&mut Arena) -> T) -> T {
    ARENA.with(|a| f(&mut a.borrow_mut()))
}

/// Payload of the panic raised when the symbolic run meets something it cannot encode.
#[derive(Debug, Clone)]
pub struct NotEncodable(pub String);

pub fn not_encodable(msg: &str) -> ! {
    std::panic::panic_any(NotEncodable(msg.to_string()))
}

impl Arena {
    pub fn val(&self, r: R) -> Option<f32> {
        match r {
            R::C(b) => Some(f32::from_bits(b)),
            R::N(i) => self.closed[i as usize],
        }
    }
    fn closed_value(&self, n: &Node) -> Option<f32> {
        Some(match *n {
            Node::Var(_) => return None,
            Node::Add(x, y) => self.val(x)? + self.val(y)?,
            Node::Sub(x, y) => self.val(x)? - self.val(y)?,
            Node::Mul(x, y) => self.val(x)? * self.val(y)?,
            Node::Div(x, y) => self.val(x)? / self.val(y)?,
            Node::Neg(x) => -self.val(x)?,
            Node::Max(x, y) => self.val(x)?.max(self.val(y)?),
            Node::Min(x, y) => self.val(x)?.min(self.val(y)?),
            Node::Ite(cd, t, e) => {
                let c = self.conds[cd as usize];
                let (p, q) = c.operands();
                if eval_cond(c, self.val(p)?, self.val(q)?) {
                    self.val(t)?
                } else {
                    self.val(e)?
                }
            }
            Node::F(k, x) => {
                let v = self.val(x)?;
                match k {
                    F1::Exp => v.exp(),
                    F1::Ln => v.ln(),
                    F1::Sqrt => v.sqrt(),
                    F1::Tanh => v.tanh(),
                    F1::Cosh => v.cosh(),
                    F1::Abs => v.abs(),
                    F1::Signum => v.signum(),
                    F1::Floor => v.floor(),
                    F1::Ceil => v.ceil(),
                    F1::Trunc => v.trunc(),
                    F1::Round => v.round(),
                }
            }
        })
    }
    pub fn mk(&mut self, n: Node) -> R {
        if let Some(&i) = self.intern.get(&n) {
            return R::N(i);
        }
        let i = self.nodes.len() as u32;
        let cvv = self.closed_value(&n);
        self.nodes.push(n);
        self.closed.push(cvv);
        self.intern.insert(n, i);
        R::N(i)
    }
    pub fn mkc(&mut self, c: Cond) -> u32 {
        if let Some(&i) = self.cintern.get(&c) {
            return i;
        }
        let i = self.conds.len() as u32;
        self.conds.push(c);
        self.cintern.insert(c, i);
        i
    }
    pub fn node(&self, i: u32) -> Node {
        self.nodes[i as usize]
    }
}

/// The symbolic scalar.
#[derive(Clone, Copy)]
pub struct Sf32(pub R);

/// is `r` the exact result of `x op y`?
fn exact(x: f32, y: f32, r: f32, k: u8) -> bool {
    let (xd, yd, rd) = (x as f64, y as f64, r as f64);
    match k {
        0 | 1 => {
            let e = if k == 0 { xd + yd } else { xd - yd };
            // the f64 sum of two f32 is exact unless the exponents are more than 29 apart, in which case the smaller
            // operand is lost entirely or partly: treat as inexact unless it is zero
            let gap_ok = x == 0.0 || y == 0.0 || (xd.abs().log2() - yd.abs().log2()).abs() < 28.0;
            gap_ok && e == rd
        }
        2 => {
            let e = xd * yd; // 48 significant bits: exact in f64 (barring f64 underflow, far below f32 range)
            e == rd
        }
        _ => y != 0.0 && rd * yd == xd && ((rd * yd) / yd == rd),
    }
}

fn cv(r: R) -> Option<f32> {
    match r {
        R::C(b) => Some(f32::from_bits(b)),
        R::N(_) => None,
    }
}

const fn c(v: f32) -> Sf32 {
    Sf32(R::C(v.to_bits()))
}

impl Sf32 {
    pub const fn lit(v: f32) -> Sf32 {
        c(v)
    }
    pub fn var(name: &str) -> Sf32 {
        with(|a| {
            let k = match a.var_intern.get(name) {
                Some(&k) => k,
                None => {
                    let k = a.var_names.len() as u32;
                    a.var_names.push(name.to_string());
                    a.var_intern.insert(name.to_string(), k);
                    k
                }
            };
            Sf32(a.mk(Node::Var(k)))
        })
    }
    /// the native f32 value if no variable occurs below this term
    pub fn concrete(self) -> Option<f32> {
        match self.0 {
            R::C(b) => Some(f32::from_bits(b)),
            R::N(_) => with(|a| a.val(self.0)),
        }
    }
    pub fn is_symbolic(self) -> bool {
        matches!(self.0, R::N(_))
    }
    pub fn same(self, o: Sf32) -> bool {
        self.0 == o.0
    }

    // --- constants of the f32 API
    pub const NEG_INFINITY: Sf32 = c(f32::NEG_INFINITY);
    pub const INFINITY: Sf32 = c(f32::INFINITY);
    pub const NAN: Sf32 = c(f32::NAN);
    pub const MIN: Sf32 = c(f32::MIN);
    pub const MAX: Sf32 = c(f32::MAX);
    pub const MIN_POSITIVE: Sf32 = c(f32::MIN_POSITIVE);
    pub const EPSILON: Sf32 = c(f32::EPSILON);

    fn bin(self, o: Sf32, k: u8) -> Sf32 {
        if let (Some(x), Some(y)) = (cv(self.0), cv(o.0)) {
            let r = match k {
                0 => x + y,
                1 => x - y,
                2 => x * y,
                _ => x / y,
            };
            if !r.is_finite() || exact(x, y, r, k) || with(|a| a.fold_inexact) {
                return c(r);
            }
            // an inexact constant operation stays a (closed) node: exact in the real reading, one IEEE operation in the float reading
        }
        // IEEE-exact identities only (valid for every operand incl. NaN, infinities and signed zeros):
        //   (-0.0) + x = x,  x + (-0.0) = x,  x - (+0.0) = x,  1 * x = x,  x * 1 = x,  x / 1 = x
        match k {
            0 => {
                if let R::C(b) = self.0 {
                    if b == (-0.0f32).to_bits() {
                        return o;
                    }
                }
                if let R::C(b) = o.0 {
                    if b == (-0.0f32).to_bits() {
                        return self;
                    }
                }
            }
            1 => {
                if let R::C(b) = o.0 {
                    if b == 0.0f32.to_bits() {
                        return self;
                    }
                }
            }
            2 => {
                if cv(self.0) == Some(1.0) {
                    return o;
                }
                if cv(o.0) == Some(1.0) {
                    return self;
                }
            }
            _ => {
                if cv(o.0) == Some(1.0) {
                    return self;
                }
            }
        }
        let n = match k {
            0 => Node::Add(self.0, o.0),
            1 => Node::Sub(self.0, o.0),
            2 => Node::Mul(self.0, o.0),
            _ => Node::Div(self.0, o.0),
        };
        Sf32(with(|a| a.mk(n)))
    }

    pub fn f1(self, k: F1) -> Sf32 {
        if let Some(x) = self.concrete() {
            return c(match k {
                F1::Exp => x.exp(),
                F1::Ln => x.ln(),
                F1::Sqrt => x.sqrt(),
                F1::Tanh => x.tanh(),
                F1::Cosh => x.cosh(),
                F1::Abs => x.abs(),
                F1::Signum => x.signum(),
                F1::Floor => x.floor(),
                F1::Ceil => x.ceil(),
                F1::Trunc => x.trunc(),
                F1::Round => x.round(),
            });
        }
        Sf32(with(|a| a.mk(Node::F(k, self.0))))
    }
    pub fn exp(self) -> Sf32 {
        self.f1(F1::Exp)
    }
    pub fn ln(self) -> Sf32 {
        self.f1(F1::Ln)
    }
    pub fn sqrt(self) -> Sf32 {
        self.f1(F1::Sqrt)
    }
    pub fn tanh(self) -> Sf32 {
        self.f1(F1::Tanh)
    }
    pub fn cosh(self) -> Sf32 {
        self.f1(F1::Cosh)
    }
    pub fn abs(self) -> Sf32 {
        self.f1(F1::Abs)
    }
    pub fn sinh(self) -> Sf32 {
        match cv(self.0) {
            Some(x) => c(x.sinh()),
            None => not_encodable("sinh of a symbolic value"),
        }
    }
    pub fn log2(self) -> Sf32 {
        match cv(self.0) {
            Some(x) => c(x.log2()),
            None => not_encodable("log2 of a symbolic value"),
        }
    }
    pub fn log10(self) -> Sf32 {
        match cv(self.0) {
            Some(x) => c(x.log10()),
            None => not_encodable("log10 of a symbolic value"),
        }
    }
    pub fn to_bits(self) -> u32 {
        match self.0 {
            R::C(b) => b,
            R::N(_) => not_encodable("to_bits of a symbolic value"),
        }
    }
    pub fn from_bits(b: u32) -> Sf32 {
        Sf32(R::C(b))
    }
    pub fn recip(self) -> Sf32 {
        c(1.0) / self
    }
    pub fn mul_add(self, a: Sf32, b: Sf32) -> Sf32 {
        match (cv(self.0), cv(a.0), cv(b.0)) {
            (Some(x), Some(y), Some(z)) => c(x.mul_add(y, z)),
            _ => not_encodable("fused multiply-add of symbolic values"),
        }
    }
    pub fn signum(self) -> Sf32 {
        self.f1(F1::Signum)
    }
    pub fn floor(self) -> Sf32 {
        self.f1(F1::Floor)
    }
    pub fn ceil(self) -> Sf32 {
        self.f1(F1::Ceil)
    }
    pub fn trunc(self) -> Sf32 {
        self.f1(F1::Trunc)
    }
    pub fn round(self) -> Sf32 {
        self.f1(F1::Round)
    }
    pub fn fract(self) -> Sf32 {
        self - self.trunc()
    }
    /// `powi`: a product in evaluation order (`x`, `x*x`, `(x*x)*x`, …) — LLVM lowers `powi(x, 2)`
    /// to `x*x`; for n > 2 the association order is a stated modelling assumption.
    pub fn powi(self, n: i32) -> Sf32 {
        if let Some(x) = cv(self.0) {
            return c(x.powi(n));
        }
        if n < 0 {
            return c(1.0) / self.powi(-n);
        }
        if n == 0 {
            return c(1.0);
        }
        let mut r = self;
        for _ in 1..n {
            r = r * self;
        }
        r
    }
    pub fn powf(self, e: Sf32) -> Sf32 {
        match (cv(self.0), cv(e.0)) {
            (Some(x), Some(y)) => c(x.powf(y)),
            (None, Some(y)) if y == 2.0 => self * self,
            (None, Some(y)) if y == 1.0 => self,
            _ => not_encodable("powf with a symbolic base and an exponent other than 1 or 2, or a symbolic exponent"),
        }
    }
    pub fn max(self, o: Sf32) -> Sf32 {
        match (cv(self.0), cv(o.0)) {
            (Some(x), Some(y)) => return c(x.max(y)),
            (Some(x), None) if x.is_nan() || x == f32::NEG_INFINITY => return o,
            (None, Some(y)) if y.is_nan() || y == f32::NEG_INFINITY => return self,
            _ => {}
        }
        if self.0 == o.0 {
            return self;
        }
        Sf32(with(|a| a.mk(Node::Max(self.0, o.0))))
    }
    pub fn min(self, o: Sf32) -> Sf32 {
        match (cv(self.0), cv(o.0)) {
            (Some(x), Some(y)) => return c(x.min(y)),
            (Some(x), None) if x.is_nan() || x == f32::INFINITY => return o,
            (None, Some(y)) if y.is_nan() || y == f32::INFINITY => return self,
            _ => {}
        }
        if self.0 == o.0 {
            return self;
        }
        Sf32(with(|a| a.mk(Node::Min(self.0, o.0))))
    }
    /// `f32::clamp`: `if x < lo { lo } else if x > hi { hi } else { x }` (NaN stays NaN); panics if
    /// `!(lo <= hi)` like the standard library.
    pub fn clamp(self, lo: Sf32, hi: Sf32) -> Sf32 {
        if let (Some(x), Some(l), Some(h)) = (cv(self.0), cv(lo.0), cv(hi.0)) {
            return c(x.clamp(l, h));
        }
        // one-sided intervals: an infinite bound never binds
        match (cv(lo.0), cv(hi.0)) {
            (Some(l), Some(h)) if l == f32::NEG_INFINITY && h == f32::INFINITY => return self,
            (Some(l), _) if l == f32::NEG_INFINITY => {
                let c2 = with(|a| a.mkc(Cond::Lt(hi.0, self.0)));
                return ite(c2, hi, self);
            }
            (_, Some(h)) if h == f32::INFINITY => {
                let c1 = with(|a| a.mkc(Cond::Lt(self.0, lo.0)));
                return ite(c1, lo, self);
            }
            _ => {}
        }
        if !(lo <= hi) {
            panic!("min > max, or either was NaN. min = {:?}, max = {:?}", lo, hi);
        }
        let c1 = with(|a| a.mkc(Cond::Lt(self.0, lo.0)));
        let x1 = ite(c1, lo, self);
        let c2 = with(|a| a.mkc(Cond::Lt(hi.0, x1.0)));
        ite(c2, hi, x1)
    }
    pub fn is_nan(self) -> bool {
        match self.concrete() {
            Some(x) => x.is_nan(),
            // Real theory has no NaN; FP obligations assert NaN-freeness explicitly on the DAG.
            None => false,
        }
    }
    pub fn is_finite(self) -> bool {
        match self.concrete() {
            Some(x) => x.is_finite(),
            None => {
                if with(|a| a.extreme_forks) {
                    // |x| < +inf, decided like any comparison (NaN excluded as everywhere in control flow)
                    self.abs() < Sf32(R::C(f32::INFINITY.to_bits()))
                } else {
                    true
                }
            }
        }
    }
    pub fn is_infinite(self) -> bool {
        match self.concrete() {
            Some(x) => x.is_infinite(),
            None => false,
        }
    }
    pub fn is_sign_negative(self) -> bool {
        match cv(self.0) {
            Some(x) => x.is_sign_negative(),
            None => self < c(0.0),
        }
    }
    pub fn is_sign_positive(self) -> bool {
        !self.is_sign_negative()
    }
    pub fn total_cmp(&self, o: &Sf32) -> Ordering {
        match (cv(self.0), cv(o.0)) {
            (Some(x), Some(y)) => x.total_cmp(&y),
            _ => self.partial_cmp(o).unwrap(),
        }
    }
    pub fn is_zero_const(self) -> bool {
        cv(self.0) == Some(0.0)
    }
    pub fn is_one_const(self) -> bool {
        cv(self.0) == Some(1.0)
    }
}

/// `if cond { t } else { e }` as a DAG node.
pub fn ite(cond: u32, t: Sf32, e: Sf32) -> Sf32 {
    if t.0 == e.0 {
        return t;
    }
    Sf32(with(|a| a.mk(Node::Ite(cond, t.0, e.0))))
}

/// Oracle helper: `if a < b { t } else { e }` without forking.
pub fn ite_lt(a: Sf32, b: Sf32, t: Sf32, e: Sf32) -> Sf32 {
    if let (Some(x), Some(y)) = (cv(a.0), cv(b.0)) {
        return if x < y { t } else { e };
    }
    let cnd = with(|ar| ar.mkc(Cond::Lt(a.0, b.0)));
    ite(cnd, t, e)
}

// ------------------------------------------------------------------------------------------------
// decisions

fn extreme(r: R) -> bool {
    match cv(r) {
        Some(x) => !x.is_finite() || x.abs() >= 1.0e30,
        None => false,
    }
}

fn eval_cond(cnd: Cond, p: f32, q: f32) -> bool {
    match cnd {
        Cond::Lt(..) => p < q,
        Cond::Le(..) => p <= q,
        Cond::Eq(..) => p == q,
    }
}

/// What an earlier decision `(known, value)` implies for `query` (same operand pair, possibly swapped).
fn implied(known: Cond, value: bool, query: Cond, no_ties: bool) -> Option<bool> {
    let (ka, kb) = known.operands();
    let (qa, qb) = query.operands();
    let same = ka == qa && kb == qb;
    let swapped = ka == qb && kb == qa;
    if !same && !swapped {
        return None;
    }
    // Facts are over a total order *away from NaN*; with ties excluded only where stated.
    // Encode the known fact as a set of possible orderings of (ka, kb): {lt, eq, gt}.
    let set = |cnd: Cond, v: bool| -> [bool; 3] {
        let s = match cnd {
            Cond::Lt(..) => [true, false, false],
            Cond::Le(..) => [true, true, false],
            Cond::Eq(..) => [false, true, false],
        };
        if v {
            s
        } else {
            [!s[0], !s[1], !s[2]]
        }
    };
    let mut k = set(known, value);
    if no_ties {
        k[1] = false;
    }
    let mut q = set(query, true);
    if swapped {
        q = [q[2], q[1], q[0]];
    }
    // if every ordering allowed by k satisfies q -> true; if none -> false
    let all = (0..3).all(|i| !k[i] || q[i]);
    let none = (0..3).all(|i| !k[i] || !q[i]);
    if all {
        Some(true)
    } else if none {
        Some(false)
    } else {
        None
    }
}

fn decide(cnd: Cond) -> bool {
    let (x, y) = cnd.operands();
    if let (Some(p), Some(q)) = (cv(x), cv(y)) {
        return eval_cond(cnd, p, q);
    }
    if let (Some(p), Some(q)) = with(|a| (a.val(x), a.val(y))) {
        return eval_cond(cnd, p, q);
    }
    with(|a| {
        if x == y {
            // x ? x for a symbolic x (NaN excluded: the real theory has none; FP obligations that
            // care about NaN assert on the DAG, not through control flow)
            return !matches!(cnd, Cond::Lt(..));
        }
        let id = a.mkc(cnd);
        // an identical or implied decision earlier on this path, a domain assumption, or a harness assumption
        for list in [&a.taken, &a.domain, &a.assumed] {
            for &(k, v) in list.iter() {
                if k == id {
                    return v;
                }
                if let Some(r) = implied(a.conds[k as usize], v, cnd, a.no_ties) {
                    return r;
                }
            }
        }
        // comparison against an extreme constant (|c| >= 1e30 or infinite): stay inside the stated
        // value domain instead of forking (recorded, and asserted in every query of this path)
        if (extreme(x) || extreme(y)) && !a.extreme_forks {
            let (cst, cst_is_left) = if extreme(x) { (cv(x).unwrap(), true) } else { (cv(y).unwrap(), false) };
            // the symbolic side is assumed strictly inside (-1e30, 1e30)
            let v = match (cnd, cst_is_left) {
                (Cond::Eq(..), _) => false,
                (_, true) => cst < 0.0,  // c < x / c <= x holds iff c is the negative extreme
                (_, false) => cst > 0.0, // x < c / x <= c holds iff c is the positive extreme
            };
            a.domain.push((id, v));
            return v;
        }
        if a.no_ties {
            if let Cond::Eq(..) = cnd {
                a.domain.push((id, false));
                return false;
            }
        }
        if a.forbid_forks {
            not_encodable("a comparison of symbolic values reached control flow where forking is disabled");
        }
        let b = if a.pos < a.prefix.len() {
            a.prefix[a.pos]
        } else {
            a.prefix.push(true);
            true
        };
        a.pos += 1;
        if a.pos > a.max_decisions {
            not_encodable("too many decisions on one path");
        }
        a.taken.push((id, b));
        b
    })
}

impl PartialEq for Sf32 {
    fn eq(&self, o: &Sf32) -> bool {
        decide(Cond::Eq(self.0, o.0))
    }
}
impl PartialOrd for Sf32 {
    fn partial_cmp(&self, o: &Sf32) -> Option<Ordering> {
        if let (Some(x), Some(y)) = (cv(self.0), cv(o.0)) {
            return x.partial_cmp(&y);
        }
        if self.lt(o) {
            Some(Ordering::Less)
        } else if self == o {
            Some(Ordering::Equal)
        } else {
            Some(Ordering::Greater)
        }
    }
    fn lt(&self, o: &Sf32) -> bool {
        decide(Cond::Lt(self.0, o.0))
    }
    fn le(&self, o: &Sf32) -> bool {
        decide(Cond::Le(self.0, o.0))
    }
    fn gt(&self, o: &Sf32) -> bool {
        decide(Cond::Lt(o.0, self.0))
    }
    fn ge(&self, o: &Sf32) -> bool {
        decide(Cond::Le(o.0, self.0))
    }
}

/// Register an assumption `a < b` (value = true) etc. for the coming runs; consulted by `decide`
/// before forking and asserted in every emitted query (the harness prints `assumed`).
pub fn assume(cnd: Cond, value: bool) {
    with(|a| {
        let id = a.mkc(cnd);
        a.assumed.push((id, value));
    })
}
pub fn assume_lt(a: Sf32, b: Sf32) {
    assume(Cond::Lt(a.0, b.0), true)
}
pub fn assume_le(a: Sf32, b: Sf32) {
    assume(Cond::Le(a.0, b.0), true)
}
pub fn assume_ne(a: Sf32, b: Sf32) {
    assume(Cond::Eq(a.0, b.0), false)
}
pub fn clear_assumptions() {
    with(|a| a.assumed.clear())
}

/// Free (scheduling) decision: returns an index in `0..n`.
pub fn choice(n: usize) -> usize {
    for i in 0..n.saturating_sub(1) {
        let b = with(|a| {
            let b = if a.pos < a.prefix.len() {
                a.prefix[a.pos]
            } else {
                a.prefix.push(true);
                true
            };
            a.pos += 1;
            a.free.push(b);
            b
        });
        if b {
            return i;
        }
    }
    n.saturating_sub(1)
}

// ------------------------------------------------------------------------------------------------
// exploration

pub struct Path<T> {
    /// decisions on symbolic comparisons, in order
    pub pc: Vec<(u32, bool)>,
    /// domain assumptions taken on this path
    pub domain: Vec<(u32, bool)>,
    /// scheduling decisions
    pub free: Vec<bool>,
    /// the closure's value, or the panic message
    pub result: Result<T, String>,
}

thread_local! {
    static QUIET: RefCell<bool> = RefCell::new(false);
}

pub fn install_quiet_panic_hook() {
    let default = std::panic::take_hook();
    std::panic::set_hook(Box::new(move |info| {
        let quiet = QUIET.with(|q| *q.borrow());
        if !quiet {
            default(info);
        }
    }));
}

pub fn quiet<T>(f: impl FnOnce() -> T) -> T {
    let old = QUIET.with(|q| std::mem::replace(&mut *q.borrow_mut(), true));
    let r = f();
    QUIET.with(|q| *q.borrow_mut() = old);
    r
}

pub fn panic_message(e: &(dyn std::any::Any + Send)) -> String {
    if let Some(s) = e.downcast_ref::<&str>() {
        s.to_string()
    } else if let Some(s) = e.downcast_ref::<String>() {
        s.clone()
    } else if let Some(s) = e.downcast_ref::<NotEncodable>() {
        format!("NOT-ENCODABLE: {}", s.0)
    } else {
        "panic".to_string()
    }
}

/// Run `f` once per decision vector (depth-first). A `NotEncodable` panic is propagated.
thread_local! {
    static TRUNCATED: std::cell::Cell<bool> = std::cell::Cell::new(false);
}

/// did the last `explore` on this thread stop at its path budget (the paths it returned are then a strict subset)?
pub fn truncated() -> bool {
    TRUNCATED.with(|c| c.get())
}

pub fn explore<T>(max_paths: usize, mut f: impl FnMut() -> T) -> Vec<Path<T>> {
    let mut out = Vec::new();
    let mut stack: Vec<Vec<bool>> = vec![vec![]];
    TRUNCATED.with(|c| c.set(false));
    while let Some(prefix) = stack.pop() {
        if out.len() >= max_paths {
            // the explored paths are still decided (a violation on one of them is a violation); the caller reports the
            // case as inconclusive because the others were not looked at
            TRUNCATED.with(|c| c.set(true));
            break;
        }
        let k = prefix.len();
        with(|a| {
            a.prefix = prefix;
            a.pos = 0;
            a.taken.clear();
            a.free.clear();
            a.domain.clear();
        });
        let r = quiet(|| std::panic::catch_unwind(std::panic::AssertUnwindSafe(|| f())));
        let result = match r {
            Ok(v) => Ok(v),
            Err(e) => {
                if e.downcast_ref::<NotEncodable>().is_some() {
                    std::panic::resume_unwind(e);
                }
                Err(panic_message(&*e))
            }
        };
        let (d, taken, free, domain) = with(|a| (a.prefix.clone(), a.taken.clone(), a.free.clone(), a.domain.clone()));
        for i in (k..d.len()).rev() {
            let mut p = d[..i].to_vec();
            p.push(!d[i]);
            stack.push(p);
        }
        out.push(Path { pc: taken, domain, free, result });
    }
    out
}

/// Run `f` once with no forks allowed beyond forced/assumed decisions.
pub fn straight<T>(f: impl FnOnce() -> T) -> T {
    with(|a| {
        a.prefix.clear();
        a.pos = 0;
        a.taken.clear();
        a.free.clear();
        a.domain.clear();
    });
    f()
}

// ------------------------------------------------------------------------------------------------
// operators

macro_rules! binop {
    ($tr:ident, $m:ident, $k:expr) => {
        impl $tr<Sf32> for Sf32 {
            type Output = Sf32;
            fn $m(self, o: Sf32) -> Sf32 {
                self.bin(o, $k)
            }
        }
        impl<'a> $tr<&'a Sf32> for Sf32 {
            type Output = Sf32;
            fn $m(self, o: &Sf32) -> Sf32 {
                self.bin(*o, $k)
            }
        }
        impl<'a> $tr<Sf32> for &'a Sf32 {
            type Output = Sf32;
            fn $m(self, o: Sf32) -> Sf32 {
                (*self).bin(o, $k)
            }
        }
        impl<'a, 'b> $tr<&'b Sf32> for &'a Sf32 {
            type Output = Sf32;
            fn $m(self, o: &Sf32) -> Sf32 {
                (*self).bin(*o, $k)
            }
        }
    };
}
binop!(Add, add, 0);
binop!(Sub, sub, 1);
binop!(Mul, mul, 2);
binop!(Div, div, 3);

macro_rules! asgop {
    ($tr:ident, $m:ident, $k:expr) => {
        impl $tr<Sf32> for Sf32 {
            fn $m(&mut self, o: Sf32) {
                *self = (*self).bin(o, $k);
            }
        }
        impl<'a> $tr<&'a Sf32> for Sf32 {
            fn $m(&mut self, o: &Sf32) {
                *self = (*self).bin(*o, $k);
            }
        }
    };
}
asgop!(AddAssign, add_assign, 0);
asgop!(SubAssign, sub_assign, 1);
asgop!(MulAssign, mul_assign, 2);
asgop!(DivAssign, div_assign, 3);

impl Rem for Sf32 {
    type Output = Sf32;
    fn rem(self, o: Sf32) -> Sf32 {
        match (cv(self.0), cv(o.0)) {
            (Some(x), Some(y)) => c(x % y),
            _ => not_encodable("remainder of symbolic values"),
        }
    }
}
impl RemAssign for Sf32 {
    fn rem_assign(&mut self, o: Sf32) {
        *self = *self % o;
    }
}

impl Neg for Sf32 {
    type Output = Sf32;
    fn neg(self) -> Sf32 {
        if let Some(x) = cv(self.0) {
            return c(-x);
        }
        Sf32(with(|a| a.mk(Node::Neg(self.0))))
    }
}
impl<'a> Neg for &'a Sf32 {
    type Output = Sf32;
    fn neg(self) -> Sf32 {
        -(*self)
    }
}
// `Sum`/`Product` exactly as core does for f32: fold from -0.0 / 1.0 in iteration order.
impl std::iter::Sum<Sf32> for Sf32 {
    fn sum<I: Iterator<Item = Sf32>>(it: I) -> Sf32 {
        it.fold(c(-0.0), |a, b| a + b)
    }
}
impl<'a> std::iter::Sum<&'a Sf32> for Sf32 {
    fn sum<I: Iterator<Item = &'a Sf32>>(it: I) -> Sf32 {
        it.fold(c(-0.0), |a, b| a + b)
    }
}
impl std::iter::Product<Sf32> for Sf32 {
    fn product<I: Iterator<Item = Sf32>>(it: I) -> Sf32 {
        it.fold(c(1.0), |a, b| a * b)
    }
}
impl<'a> std::iter::Product<&'a Sf32> for Sf32 {
    fn product<I: Iterator<Item = &'a Sf32>>(it: I) -> Sf32 {
        it.fold(c(1.0), |a, b| a * b)
    }
}
impl Default for Sf32 {
    fn default() -> Sf32 {
        c(0.0)
    }
}
impl fmt::Debug for Sf32 {
    fn fmt(&self, f: &mut fmt::Formatter) -> fmt::Result {
        match (self.concrete(), self.0) {
            (Some(x), _) => fmt::Debug::fmt(&x, f),
            (None, R::N(i)) => write!(f, "<s{}>", i),
            _ => unreachable!(),
        }
    }
}
impl fmt::Display for Sf32 {
    fn fmt(&self, f: &mut fmt::Formatter) -> fmt::Result {
        match (self.concrete(), self.0) {
            (Some(x), _) => fmt::Display::fmt(&x, f),
            (None, R::N(i)) => write!(f, "<s{}>", i),
            _ => unreachable!(),
        }
    }
}
impl fmt::LowerExp for Sf32 {
    fn fmt(&self, f: &mut fmt::Formatter) -> fmt::Result {
        match self.0 {
            R::C(b) => fmt::LowerExp::fmt(&f32::from_bits(b), f),
            R::N(i) => write!(f, "<s{}>", i),
        }
    }
}
macro_rules! from_small { ($($t:ty),*) => { $(impl From<$t> for Sf32 { fn from(x: $t) -> Sf32 { c(f32::from(x)) } })* } }
from_small!(u8, u16, i8, i16, f32);
impl From<bool> for Sf32 {
    fn from(x: bool) -> Sf32 {
        c(if x { 1.0 } else { 0.0 })
    }
}

// ------------------------------------------------------------------------------------------------
// casts (the rewriter turns `e as f32` into `cast_s(e)` and `e as <int>` into `cast_p::<_, int>(e)`)

pub trait CastS {
    fn cast_s(self) -> Sf32;
}
macro_rules! casts { ($($t:ty),*) => { $(impl CastS for $t { fn cast_s(self) -> Sf32 { c(self as f32) } })* } }
casts!(usize, u64, u32, u16, u8, isize, i64, i32, i16, i8, u128, i128, f32, f64);
impl CastS for Sf32 {
    fn cast_s(self) -> Sf32 {
        self
    }
}
pub fn cast_s<T: CastS>(x: T) -> Sf32 {
    x.cast_s()
}
pub trait CastP<T> {
    fn cast_p(self) -> T;
}
macro_rules! castp_row { ($s:ty => [$($t:ty),*]) => { $(impl CastP<$t> for $s { fn cast_p(self) -> $t { self as $t } })* } }
macro_rules! castp { ($($s:ty),*) => { $(castp_row!($s => [usize,u64,u32,u16,u8,isize,i64,i32,i16,i8,u128,i128]);)* } }
castp!(usize, u64, u32, u16, u8, isize, i64, i32, i16, i8, u128, i128);
castp_row!(bool => [usize,u64,u32,u16,u8,isize,i64,i32,i16,i8,u128,i128]);
castp_row!(char => [usize,u64,u32,u16,u8,isize,i64,i32,i16,i8,u128,i128]);
castp_row!(f64 => [usize,u64,u32,u16,u8,isize,i64,i32,i16,i8,u128,i128]);
macro_rules! castps { ($($t:ty),*) => { $(impl CastP<$t> for Sf32 { fn cast_p(self) -> $t {
    match self.concrete() { Some(x) => x as $t, None => not_encodable("cast of a symbolic float to an integer") } } })* } }
castps!(usize, u64, u32, u16, u8, isize, i64, i32, i16, i8, u128, i128);
pub fn cast_p<S: CastP<T>, T>(x: S) -> T {
    x.cast_p()
}

/// `std::f32::consts` / `core::f32` module mirror.
pub mod f32_mod {
    use super::Sf32;
    pub const EPSILON: Sf32 = Sf32::EPSILON;
    pub const MAX: Sf32 = Sf32::MAX;
    pub const MIN: Sf32 = Sf32::MIN;
    pub const INFINITY: Sf32 = Sf32::INFINITY;
    pub const NEG_INFINITY: Sf32 = Sf32::NEG_INFINITY;
    pub const NAN: Sf32 = Sf32::NAN;
    pub mod consts {
        use super::super::Sf32;
        pub const PI: Sf32 = Sf32::lit(std::f32::consts::PI);
        pub const E: Sf32 = Sf32::lit(std::f32::consts::E);
        pub const LN_2: Sf32 = Sf32::lit(std::f32::consts::LN_2);
        pub const SQRT_2: Sf32 = Sf32::lit(std::f32::consts::SQRT_2);
    }
}

// ------------------------------------------------------------------------------------------------
// symbolic differentiation (real semantics; oracle side, part of the trusted base)

fn s_add(a: Sf32, b: Sf32) -> Sf32 {
    if a.is_zero_const() {
        b
    } else if b.is_zero_const() {
        a
    } else {
        a + b
    }
}
fn s_sub(a: Sf32, b: Sf32) -> Sf32 {
    if b.is_zero_const() {
        a
    } else if a.is_zero_const() {
        -b
    } else {
        a - b
    }
}
fn s_mul(a: Sf32, b: Sf32) -> Sf32 {
    if a.is_zero_const() || b.is_zero_const() {
        c(0.0)
    } else if a.is_one_const() {
        b
    } else if b.is_one_const() {
        a
    } else {
        a * b
    }
}

/// How `diff` differentiates activation atoms: `Generic` uses `tanh' = 1 - tanh²`; `Aligned` uses the
/// closed form the library uses (`1/cosh²`), which C07 proves equal as a scalar obligation.
#[derive(Clone, Copy, PartialEq)]
pub enum DiffMode {
    Generic,
    Aligned,
}

pub struct Differ {
    pub var: R,
    pub mode: DiffMode,
    memo: HashMap<R, Sf32>,
}

impl Differ {
    pub fn new(var: Sf32, mode: DiffMode) -> Differ {
        Differ { var: var.0, mode, memo: HashMap::new() }
    }
    pub fn d(&mut self, e: Sf32) -> Sf32 {
        let id = match e.0 {
            R::C(_) => return c(0.0),
            R::N(i) => i,
        };
        if let Some(r) = self.memo.get(&e.0) {
            return *r;
        }
        let node = with(|a| a.node(id));
        let r = match node {
            Node::Var(_) => {
                if e.0 == self.var {
                    c(1.0)
                } else {
                    c(0.0)
                }
            }
            Node::Add(x, y) => s_add(self.d(Sf32(x)), self.d(Sf32(y))),
            Node::Sub(x, y) => s_sub(self.d(Sf32(x)), self.d(Sf32(y))),
            Node::Mul(x, y) => {
                let (dx, dy) = (self.d(Sf32(x)), self.d(Sf32(y)));
                s_add(s_mul(dx, Sf32(y)), s_mul(Sf32(x), dy))
            }
            Node::Div(x, y) if self.mode == DiffMode::Aligned && sigmoid_arg(x, y).is_some() => {
                // y = 1/(1+exp(-u)): the library's closed form y(1-y), proved equal to the generic rule in C07
                let u = sigmoid_arg(x, y).unwrap();
                let du = self.d(Sf32(u));
                s_mul(e * (c(1.0) - e), du)
            }
            Node::Div(x, y) => {
                let (dx, dy) = (self.d(Sf32(x)), self.d(Sf32(y)));
                if dy.is_zero_const() {
                    if dx.is_zero_const() {
                        dx
                    } else {
                        dx / Sf32(y)
                    }
                } else {
                    s_sub(s_mul(dx, Sf32(y)), s_mul(Sf32(x), dy)) / (Sf32(y) * Sf32(y))
                }
            }
            Node::Neg(x) => {
                let d = self.d(Sf32(x));
                if d.is_zero_const() {
                    d
                } else {
                    -d
                }
            }
            Node::Max(x, y) => {
                let (dx, dy) = (self.d(Sf32(x)), self.d(Sf32(y)));
                let cnd = with(|a| a.mkc(Cond::Lt(x, y)));
                ite(cnd, dy, dx)
            }
            Node::Min(x, y) => {
                let (dx, dy) = (self.d(Sf32(x)), self.d(Sf32(y)));
                let cnd = with(|a| a.mkc(Cond::Lt(y, x)));
                ite(cnd, dy, dx)
            }
            Node::Ite(cnd, t, el) => {
                let (dt, de) = (self.d(Sf32(t)), self.d(Sf32(el)));
                ite(cnd, dt, de)
            }
            Node::F(k, x) => {
                let dx = self.d(Sf32(x));
                if dx.is_zero_const() {
                    dx
                } else {
                    match k {
                        F1::Exp => s_mul(e, dx),
                        F1::Ln => dx / Sf32(x),
                        F1::Sqrt => dx / (c(2.0) * e),
                        F1::Tanh => match self.mode {
                            DiffMode::Generic => s_mul(c(1.0) - e * e, dx),
                            DiffMode::Aligned => {
                                let ch = Sf32(x).cosh();
                                s_mul(c(1.0) / (ch * ch), dx)
                            }
                        },
                        F1::Cosh => not_encodable("derivative of cosh requested"),
                        F1::Abs => {
                            let cnd = with(|a| a.mkc(Cond::Lt(x, R::C(0.0f32.to_bits()))));
                            ite(cnd, -dx, dx)
                        }
                        F1::Signum | F1::Floor | F1::Ceil | F1::Trunc | F1::Round => c(0.0),
                    }
                }
            }
        };
        self.memo.insert(e.0, r);
        r
    }
}

/// `Some(u)` if `x / y` is the sigmoid pattern `1.0 / (1.0 + exp(-u))`.
fn sigmoid_arg(x: R, y: R) -> Option<R> {
    if cv(x) != Some(1.0) {
        return None;
    }
    let yi = match y {
        R::N(i) => i,
        _ => return None,
    };
    let (a, b) = match with(|ar| ar.node(yi)) {
        Node::Add(a, b) => (a, b),
        _ => return None,
    };
    let ei = match (cv(a), b) {
        (Some(one), R::N(i)) if one == 1.0 => i,
        _ => return None,
    };
    let ni = match with(|ar| ar.node(ei)) {
        Node::F(F1::Exp, R::N(n)) => n,
        _ => return None,
    };
    match with(|ar| ar.node(ni)) {
        Node::Neg(u) => Some(u),
        _ => None,
    }
}

pub fn diff(e: Sf32, var: Sf32) -> Sf32 {
    Differ::new(var, DiffMode::Generic).d(e)
}

/// Substitute nodes (typically variables) by other terms.
pub fn subst(e: Sf32, map: &HashMap<R, Sf32>, memo: &mut HashMap<R, Sf32>) -> Sf32 {
    if let Some(r) = map.get(&e.0) {
        return *r;
    }
    let id = match e.0 {
        R::C(_) => return e,
        R::N(i) => i,
    };
    if let Some(r) = memo.get(&e.0) {
        return *r;
    }
    let node = with(|a| a.node(id));
    let mut s = |r: R| subst(Sf32(r), map, memo);
    let r = match node {
        Node::Var(_) => e,
        Node::Add(x, y) => s(x) + s(y),
        Node::Sub(x, y) => s(x) - s(y),
        Node::Mul(x, y) => s(x) * s(y),
        Node::Div(x, y) => s(x) / s(y),
        Node::Neg(x) => -s(x),
        Node::Max(x, y) => s(x).max(s(y)),
        Node::Min(x, y) => s(x).min(s(y)),
        Node::Ite(..) => not_encodable("substitution through an if-then-else node"),
        Node::F(k, x) => s(x).f1(k),
    };
    memo.insert(e.0, r);
    r
}

/// Evaluate a DAG term in native f32 under an assignment of the variables (translator validation).
pub fn eval(e: Sf32, env: &HashMap<String, f32>, memo: &mut HashMap<R, f32>) -> f32 {
    let id = match e.0 {
        R::C(b) => return f32::from_bits(b),
        R::N(i) => i,
    };
    if let Some(r) = memo.get(&e.0) {
        return *r;
    }
    let node = with(|a| a.node(id));
    let mut ev = |r: R| eval(Sf32(r), env, memo);
    let r = match node {
        Node::Var(k) => {
            let name = with(|a| a.var_names[k as usize].clone());
            *env.get(&name).unwrap_or(&0.0)
        }
        Node::Add(x, y) => ev(x) + ev(y),
        Node::Sub(x, y) => ev(x) - ev(y),
        Node::Mul(x, y) => ev(x) * ev(y),
        Node::Div(x, y) => ev(x) / ev(y),
        Node::Neg(x) => -ev(x),
        Node::Max(x, y) => ev(x).max(ev(y)),
        Node::Min(x, y) => ev(x).min(ev(y)),
        Node::Ite(cnd, t, el) => {
            let cd = with(|a| a.conds[cnd as usize]);
            let (p, q) = cd.operands();
            let (p, q) = (ev(p), ev(q));
            if eval_cond(cd, p, q) {
                ev(t)
            } else {
                ev(el)
            }
        }
        Node::F(k, x) => {
            let v = ev(x);
            match k {
                F1::Exp => v.exp(),
                F1::Ln => v.ln(),
                F1::Sqrt => v.sqrt(),
                F1::Tanh => v.tanh(),
                F1::Cosh => v.cosh(),
                F1::Abs => v.abs(),
                F1::Signum => v.signum(),
                    F1::Floor => v.floor(),
                    F1::Ceil => v.ceil(),
                    F1::Trunc => v.trunc(),
                    F1::Round => v.round(),
            }
        }
    };
    memo.insert(e.0, r);
    r
}

/// Strip the common outer structure of two terms: while both are the same operation with one identical operand
/// (and the differing operand is not a divisor), descend into the differing operands. If the inner pair is equal up
/// to the sign of zero (and NaN-for-NaN), so is the outer pair: +, -, *, unary minus and "numerator of /" map a
/// zero-sign difference to at most a zero-sign difference.
pub fn peel(l: Sf32, r: Sf32) -> (Sf32, Sf32) {
    let (mut l, mut r) = (l, r);
    loop {
        let (li, ri) = match (l.0, r.0) {
            (R::N(a), R::N(b)) if a != b => (a, b),
            _ => return (l, r),
        };
        let (nl, nr) = with(|a| (a.node(li), a.node(ri)));
        let next = match (nl, nr) {
            (Node::Add(a, b), Node::Add(c, d)) | (Node::Sub(a, b), Node::Sub(c, d)) | (Node::Mul(a, b), Node::Mul(c, d)) => {
                if a == c {
                    Some((b, d))
                } else if b == d {
                    Some((a, c))
                } else {
                    None
                }
            }
            (Node::Div(a, b), Node::Div(c, d)) if b == d => Some((a, c)),
            (Node::Neg(a), Node::Neg(c)) => Some((a, c)),
            _ => None,
        };
        match next {
            Some((x, y)) => {
                l = Sf32(x);
                r = Sf32(y);
            }
            None => return (l, r),
        }
    }
}

/// All DAG nodes reachable from a term (through operands and the operands of conditions).
pub fn reachable(t: Sf32) -> std::collections::HashSet<R> {
    let mut seen: std::collections::HashSet<R> = Default::default();
    let mut stack = vec![t.0];
    while let Some(r) = stack.pop() {
        let id = match r {
            R::C(_) => continue,
            R::N(i) => i,
        };
        if !seen.insert(r) {
            continue;
        }
        match with(|a| a.node(id)) {
            Node::Var(_) => {}
            Node::Add(x, y) | Node::Sub(x, y) | Node::Mul(x, y) | Node::Div(x, y) | Node::Max(x, y) | Node::Min(x, y) => {
                stack.push(x);
                stack.push(y);
            }
            Node::Neg(x) | Node::F(_, x) => stack.push(x),
            Node::Ite(cd, t, e) => {
                let (p, q) = with(|a| a.conds[cd as usize]).operands();
                stack.extend([p, q, t, e]);
            }
        }
    }
    seen
}

/// Variables (names) occurring in a set of terms / conditions.
pub fn vars_of(terms: &[Sf32], conds: &[u32]) -> BTreeSet<String> {
    let mut seen: std::collections::HashSet<R> = Default::default();
    let mut out = BTreeSet::new();
    let mut stack: Vec<R> = terms.iter().map(|t| t.0).collect();
    let mut cstack: Vec<u32> = conds.to_vec();
    loop {
        while let Some(r) = stack.pop() {
            let id = match r {
                R::C(_) => continue,
                R::N(i) => i,
            };
            if !seen.insert(r) {
                continue;
            }
            match with(|a| a.node(id)) {
                Node::Var(k) => {
                    out.insert(with(|a| a.var_names[k as usize].clone()));
                }
                Node::Add(x, y) | Node::Sub(x, y) | Node::Mul(x, y) | Node::Div(x, y) | Node::Max(x, y) | Node::Min(x, y) => {
                    stack.push(x);
                    stack.push(y);
                }
                Node::Neg(x) | Node::F(_, x) => stack.push(x),
                Node::Ite(cd, t, e) => {
                    cstack.push(cd);
                    stack.push(t);
                    stack.push(e);
                }
            }
        }
        match cstack.pop() {
            Some(cd) => {
                let (p, q) = with(|a| a.conds[cd as usize]).operands();
                stack.push(p);
                stack.push(q);
            }
            None => break,
        }
    }
    out
}
