//! Schedule-parametric model of the `rayon` API subset (a crate *named* `rayon`, linked into the
//! shadow build of `neurons` only).
//!
//! Contract modelled — rayon's documented guarantees and nothing more:
//!  * the closures of one parallel stage run in an arbitrary order (a permutation picked by the
//!    decision vector of `symrt::explore`);
//!  * `collect` into an ordered collection preserves index order; `zip`/`enumerate` pair by index;
//!  * `reduce` / `sum` / `fold` combine in an arbitrary binary tree over the index order;
//!  * `for_each` runs in an arbitrary order.
//! Anything outside this subset does not compile, which makes the check inconclusive (exit 2).

use std::cell::Cell;

#[derive(Clone, Copy, PartialEq, Eq, Debug)]
pub enum Mode {
    /// index order, left-to-right reduction (deterministic; used by every check except C05)
    Sequential,
    /// reverse index order, right-to-left reduction (a second deterministic schedule)
    Reversed,
    /// every order / every reduction tree, enumerated through `symrt::choice`
    Explore,
}

thread_local! {
    static MODE: Cell<Mode> = Cell::new(Mode::Sequential);
    static STAGES: Cell<usize> = Cell::new(0);
    /// the number of worker threads the program observes (`current_num_threads`): 1 for the sequential schedule,
    /// 4 for the reversed one, an arbitrary element of {1, 2, 3, 5, 8} (picked by the decision vector) when exploring
    static THREADS: Cell<usize> = Cell::new(1);
}

pub mod model {
    pub use super::Mode;
    pub fn set_mode(m: Mode) {
        super::MODE.with(|c| c.set(m));
        // hash collections are walked in an arbitrary order too (fresh hash keys per instance and per run)
        symrt::hashmodel::set_order(match m {
            Mode::Sequential => symrt::hashmodel::Order::Insertion,
            Mode::Reversed => symrt::hashmodel::Order::Reversed,
            Mode::Explore => symrt::hashmodel::Order::Explore,
        });
        let t = match m {
            Mode::Sequential => 1,
            Mode::Reversed => 4,
            Mode::Explore => [1usize, 2, 3, 5, 8][symrt::choice(5)],
        };
        super::THREADS.with(|c| c.set(t));
    }
    pub fn threads() -> usize {
        super::THREADS.with(|c| c.get())
    }
    pub fn mode() -> Mode {
        super::MODE.with(|c| c.get())
    }
    /// number of parallel stages executed so far on this thread
    pub fn stages() -> usize {
        super::STAGES.with(|c| c.get())
    }
}

fn perm(n: usize) -> Vec<usize> {
    STAGES.with(|c| c.set(c.get() + 1));
    match model::mode() {
        Mode::Sequential => (0..n).collect(),
        Mode::Reversed => (0..n).rev().collect(),
        Mode::Explore if n > 4 => {
            // stages with more than 4 closures: four representative orders instead of n! (stated bound)
            match symrt::choice(4) {
                0 => (0..n).collect(),
                1 => (0..n).rev().collect(),
                2 => (1..n).chain(0..1).collect(),
                _ => {
                    let mut v: Vec<usize> = (0..n).collect();
                    v.swap(0, 1);
                    v
                }
            }
        }
        Mode::Explore => {
            let mut rest: Vec<usize> = (0..n).collect();
            let mut out = Vec::with_capacity(n);
            while !rest.is_empty() {
                let k = symrt::choice(rest.len());
                out.push(rest.remove(k));
            }
            out
        }
    }
}

/// 0 = left fold, 1 = right fold, 2 = balanced
fn shaped<T>(mut items: Vec<T>, op: &impl Fn(T, T) -> T, shape: usize) -> T {
    if items.len() == 1 {
        return items.pop().unwrap();
    }
    let split = match shape {
        0 => items.len() - 1,
        1 => 1,
        _ => items.len() / 2,
    };
    let right = items.split_off(split);
    let l = shaped(items, op, shape);
    let r = shaped(right, op, shape);
    op(l, r)
}

fn tree<T>(mut items: Vec<T>, op: &impl Fn(T, T) -> T) -> Option<T> {
    if items.is_empty() {
        return None;
    }
    if items.len() == 1 {
        return items.pop();
    }
    if model::mode() == Mode::Explore && items.len() > 4 {
        // more than 4 items: three representative trees (left fold, right fold, balanced) instead of every tree (stated bound)
        let shape = symrt::choice(3);
        return Some(shaped(items, op, shape));
    }
    let split = match model::mode() {
        Mode::Sequential => items.len() - 1,
        Mode::Reversed => 1,
        Mode::Explore => 1 + symrt::choice(items.len() - 1),
    };
    let right = items.split_off(split);
    let l = tree(items, op).unwrap();
    let r = tree(right, op).unwrap();
    Some(op(l, r))
}

pub mod iter {
    pub use super::prelude::*;
}
pub mod slice {
    pub use super::prelude::*;
}

pub mod prelude {
    use super::{perm, tree};

    /// A parallel iterator of the model: the items in index order.
    pub struct Par<T>(pub Vec<T>);

    impl<T> Par<T> {
        pub fn map<U, F: Fn(T) -> U>(self, f: F) -> Par<U> {
            let n = self.0.len();
            let mut items: Vec<Option<T>> = self.0.into_iter().map(Some).collect();
            let mut slots: Vec<Option<U>> = (0..n).map(|_| None).collect();
            for i in perm(n) {
                slots[i] = Some(f(items[i].take().unwrap()));
            }
            Par(slots.into_iter().map(|x| x.unwrap()).collect())
        }
        pub fn zip<U, Z: IntoParallelIterator<Item = U>>(self, o: Z) -> Par<(T, U)> {
            Par(self.0.into_iter().zip(o.into_par_iter().0.into_iter()).collect())
        }
        pub fn enumerate(self) -> Par<(usize, T)> {
            Par(self.0.into_iter().enumerate().collect())
        }
        pub fn filter<F: Fn(&T) -> bool>(self, f: F) -> Par<T> {
            let keep = Par(self.0.iter().collect::<Vec<&T>>()).map(|t| f(t)).0;
            Par(self.0.into_iter().zip(keep).filter(|(_, k)| *k).map(|(t, _)| t).collect())
        }
        pub fn filter_map<U, F: Fn(T) -> Option<U>>(self, f: F) -> Par<U> {
            Par(self.map(f).0.into_iter().flatten().collect())
        }
        pub fn flat_map<U, I: IntoParallelIterator<Item = U>, F: Fn(T) -> I>(self, f: F) -> Par<U> {
            let parts = self.map(|t| f(t).into_par_iter().0);
            Par(parts.0.into_iter().flatten().collect())
        }
        pub fn flat_map_iter<U, I: IntoIterator<Item = U>, F: Fn(T) -> I>(self, f: F) -> Par<U> {
            let parts = self.map(|t| f(t).into_iter().collect::<Vec<U>>());
            Par(parts.0.into_iter().flatten().collect())
        }
        pub fn collect<C: std::iter::FromIterator<T>>(self) -> C {
            self.0.into_iter().collect()
        }
        pub fn for_each<F: Fn(T)>(self, f: F) {
            let _ = self.map(f);
        }
        pub fn reduce<ID: Fn() -> T, OP: Fn(T, T) -> T>(self, identity: ID, op: OP) -> T {
            match tree(self.0, &op) {
                Some(v) => v,
                None => identity(),
            }
        }
        pub fn reduce_with<OP: Fn(T, T) -> T>(self, op: OP) -> Option<T> {
            tree(self.0, &op)
        }
        pub fn sum<S: std::iter::Sum<T> + std::iter::Sum<S>>(self) -> S {
            // rayon: each job sums a contiguous run sequentially, partial sums are then summed in a tree
            let parts: Vec<S> = self.0.into_iter().map(|t| std::iter::once(t).sum::<S>()).collect();
            match tree(parts, &|a: S, b: S| [a, b].into_iter().sum::<S>()) {
                Some(v) => v,
                None => std::iter::empty::<T>().sum::<S>(),
            }
        }
        pub fn count(self) -> usize {
            self.0.len()
        }
        pub fn any<F: Fn(T) -> bool>(self, f: F) -> bool {
            self.map(f).0.into_iter().any(|b| b)
        }
        pub fn all<F: Fn(T) -> bool>(self, f: F) -> bool {
            self.map(f).0.into_iter().all(|b| b)
        }
        pub fn with_min_len(self, _n: usize) -> Par<T> {
            self
        }
        pub fn with_max_len(self, _n: usize) -> Par<T> {
            self
        }
        pub fn cloned<'a, U: 'a + Clone>(self) -> Par<U>
        where
            T: std::ops::Deref<Target = U>,
        {
            Par(self.0.into_iter().map(|t| (*t).clone()).collect())
        }
    }

    pub trait ParallelIterator {}
    pub trait IndexedParallelIterator {}
    impl<T> ParallelIterator for Par<T> {}
    impl<T> IndexedParallelIterator for Par<T> {}

    pub trait ParallelSlice<T> {
        fn par_chunks(&self, n: usize) -> Par<&[T]>;
        fn par_chunks_exact(&self, n: usize) -> Par<&[T]>;
        fn par_windows(&self, n: usize) -> Par<&[T]>;
    }
    impl<T> ParallelSlice<T> for [T] {
        fn par_chunks(&self, n: usize) -> Par<&[T]> {
            Par(self.chunks(n).collect())
        }
        fn par_chunks_exact(&self, n: usize) -> Par<&[T]> {
            Par(self.chunks_exact(n).collect())
        }
        fn par_windows(&self, n: usize) -> Par<&[T]> {
            Par(self.windows(n).collect())
        }
    }
    pub trait ParallelSliceMut<T> {
        fn par_chunks_mut(&mut self, n: usize) -> Par<&mut [T]>;
    }
    impl<T> ParallelSliceMut<T> for [T] {
        fn par_chunks_mut(&mut self, n: usize) -> Par<&mut [T]> {
            Par(self.chunks_mut(n).collect())
        }
    }

    pub trait IntoParallelIterator {
        type Item;
        fn into_par_iter(self) -> Par<Self::Item>;
    }
    impl<T> IntoParallelIterator for Par<T> {
        type Item = T;
        fn into_par_iter(self) -> Par<T> {
            self
        }
    }
    impl<T> IntoParallelIterator for Vec<T> {
        type Item = T;
        fn into_par_iter(self) -> Par<T> {
            Par(self)
        }
    }
    impl<'a, T> IntoParallelIterator for &'a Vec<T> {
        type Item = &'a T;
        fn into_par_iter(self) -> Par<&'a T> {
            Par(self.iter().collect())
        }
    }
    impl<'a, T> IntoParallelIterator for &'a mut Vec<T> {
        type Item = &'a mut T;
        fn into_par_iter(self) -> Par<&'a mut T> {
            Par(self.iter_mut().collect())
        }
    }
    impl<'a, T> IntoParallelIterator for &'a [T] {
        type Item = &'a T;
        fn into_par_iter(self) -> Par<&'a T> {
            Par(self.iter().collect())
        }
    }
    impl<'a, T> IntoParallelIterator for &'a mut [T] {
        type Item = &'a mut T;
        fn into_par_iter(self) -> Par<&'a mut T> {
            Par(self.iter_mut().collect())
        }
    }
    impl IntoParallelIterator for std::ops::Range<usize> {
        type Item = usize;
        fn into_par_iter(self) -> Par<usize> {
            Par(self.collect())
        }
    }
    impl IntoParallelIterator for std::ops::Range<i32> {
        type Item = i32;
        fn into_par_iter(self) -> Par<i32> {
            Par(self.collect())
        }
    }
    // rayon's MultiZip: a tuple of parallel-iterable things zips by index
    impl<A: IntoParallelIterator, B: IntoParallelIterator> IntoParallelIterator for (A, B) {
        type Item = (A::Item, B::Item);
        fn into_par_iter(self) -> Par<(A::Item, B::Item)> {
            Par(self.0.into_par_iter().0.into_iter().zip(self.1.into_par_iter().0.into_iter()).collect())
        }
    }
    impl<'a, A, B> IntoParallelIterator for &'a (A, B)
    where
        &'a A: IntoParallelIterator,
        &'a B: IntoParallelIterator,
    {
        type Item = (<&'a A as IntoParallelIterator>::Item, <&'a B as IntoParallelIterator>::Item);
        fn into_par_iter(self) -> Par<Self::Item> {
            Par((&self.0).into_par_iter().0.into_iter().zip((&self.1).into_par_iter().0.into_iter()).collect())
        }
    }
    // `&&[T]` (a reference to a slice reference), as produced by `&(&[T], &[U])`
    impl<'a, 'b, T> IntoParallelIterator for &'a &'b [T] {
        type Item = &'b T;
        fn into_par_iter(self) -> Par<&'b T> {
            Par(self.iter().collect())
        }
    }

    /// `par_bridge`: rayon documents that the order of the original iterator is NOT preserved —
    /// the bridged items arrive in an arbitrary order (a permutation picked by the decision vector).
    pub trait ParallelBridge: Sized + Iterator {
        fn par_bridge(self) -> Par<Self::Item> {
            let mut items: Vec<Option<Self::Item>> = self.map(Some).collect();
            let order = perm(items.len());
            Par(order.into_iter().map(|i| items[i].take().unwrap()).collect())
        }
    }
    impl<I: Iterator> ParallelBridge for I {}

    pub trait IntoParallelRefIterator<'a> {
        type Item;
        fn par_iter(&'a self) -> Par<Self::Item>;
    }
    impl<'a, T: 'a> IntoParallelRefIterator<'a> for Vec<T> {
        type Item = &'a T;
        fn par_iter(&'a self) -> Par<&'a T> {
            Par(self.iter().collect())
        }
    }
    impl<'a, T: 'a> IntoParallelRefIterator<'a> for [T] {
        type Item = &'a T;
        fn par_iter(&'a self) -> Par<&'a T> {
            Par(self.iter().collect())
        }
    }
    pub trait IntoParallelRefMutIterator<'a> {
        type Item;
        fn par_iter_mut(&'a mut self) -> Par<Self::Item>;
    }
    impl<'a, T: 'a> IntoParallelRefMutIterator<'a> for Vec<T> {
        type Item = &'a mut T;
        fn par_iter_mut(&'a mut self) -> Par<&'a mut T> {
            Par(self.iter_mut().collect())
        }
    }
    impl<'a, T: 'a> IntoParallelRefMutIterator<'a> for [T] {
        type Item = &'a mut T;
        fn par_iter_mut(&'a mut self) -> Par<&'a mut T> {
            Par(self.iter_mut().collect())
        }
    }
}

pub fn join<A, B, RA, RB>(a: A, b: B) -> (RA, RB)
where
    A: FnOnce() -> RA,
    B: FnOnce() -> RB,
{
    let first_a = match model::mode() {
        Mode::Sequential => true,
        Mode::Reversed => false,
        Mode::Explore => symrt::choice(2) == 0,
    };
    if first_a {
        let ra = a();
        let rb = b();
        (ra, rb)
    } else {
        let rb = b();
        let ra = a();
        (ra, rb)
    }
}

pub fn current_num_threads() -> usize {
    THREADS.with(|c| c.get())
}
