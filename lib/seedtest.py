#!/usr/bin/env python3
"""Confirm a seeded change and run the registered checks against it.

usage: seedtest.py <PROPERTY> <mutation dir with patch.diff + demo.rs [+ README.md]> <seed id> [--checks C01,C08] [--tier quick]

1. in a scratch worktree (outside /repo and /verif): the patch applies, the repo's own suite passes with it, the
   demonstration fails with it and passes without it;
2. the patch is applied to /repo, the check(s) run, /repo is restored straight afterwards;
3. the change is kept under /verif/seeded/<seed id>/ with meta.json.
"""
import json
import os
import shutil
import subprocess
import sys
import time

VERIF = os.path.dirname(os.path.dirname(os.path.abspath(__file__)))
REPO = "/repo"
SCRATCH = "/tmp/wt/confirm"


def sh(cmd, cwd=None, timeout=3600, env=None):
    p = subprocess.run(cmd, cwd=cwd, stdout=subprocess.PIPE, stderr=subprocess.STDOUT, text=True, timeout=timeout, env=env)
    return p.returncode, p.stdout


def summary(out):
    import re
    ms = re.findall(r"test result: (\w+)\. (\d+) passed; (\d+) failed", out)
    return ms


def main():
    prop, mdir, sid = sys.argv[1], sys.argv[2], sys.argv[3]
    checks = [prop]
    tier = "quick"
    if "--checks" in sys.argv:
        checks = sys.argv[sys.argv.index("--checks") + 1].split(",")
    if "--tier" in sys.argv:
        tier = sys.argv[sys.argv.index("--tier") + 1]
    patch = os.path.join(mdir, "patch.diff")
    demo = os.path.join(mdir, "demo.rs")
    env = dict(os.environ, CARGO_NET_OFFLINE="true")
    meta = {"id": sid, "property": prop, "source_dir": mdir, "ran": []}
    # 1. confirm in a scratch worktree
    if not os.path.exists(SCRATCH):
        sh(["git", "-C", REPO, "worktree", "add", "--detach", SCRATCH, "HEAD"])
    sh(["git", "checkout", "-q", "--detach", subprocess.run(["git", "-C", REPO, "rev-parse", "HEAD"], stdout=subprocess.PIPE, text=True).stdout.strip()], cwd=SCRATCH)
    sh(["git", "checkout", "--", "."], cwd=SCRATCH)
    demo_dst = os.path.join(SCRATCH, "tests", "demo.rs")
    os.makedirs(os.path.dirname(demo_dst), exist_ok=True)
    shutil.copyfile(demo, demo_dst)
    rc, out = sh(["cargo", "test", "--offline", "--test", "demo"], cwd=SCRATCH, env=env)
    meta["demo_without_patch"] = {"rc": rc, "summary": summary(out)}
    meta["ran"].append("cargo test --offline --test demo   (unchanged tree): rc=%d" % rc)
    rc_a, out_a = sh(["git", "apply", patch], cwd=SCRATCH)
    if rc_a != 0:
        print("patch does not apply:", out_a)
        meta["confirmed"] = False
        meta["why"] = "patch does not apply: " + out_a[-300:]
        finish(meta, sid, patch, demo, mdir)
        return 3
    rc2, out2 = sh(["cargo", "test", "--offline", "--test", "demo"], cwd=SCRATCH, env=env)
    meta["demo_with_patch"] = {"rc": rc2, "summary": summary(out2), "tail": out2[-600:]}
    meta["ran"].append("cargo test --offline --test demo   (with the change): rc=%d" % rc2)
    os.remove(demo_dst)
    rc3, out3 = sh(["cargo", "test", "--offline"], cwd=SCRATCH, env=env)
    meta["suite_with_patch"] = {"rc": rc3, "summary": summary(out3)}
    meta["ran"].append("cargo test --offline   (existing suite, with the change): rc=%d %s" % (rc3, summary(out3)))
    sh(["git", "checkout", "--", "."], cwd=SCRATCH)
    confirmed = rc == 0 and rc2 != 0 and rc3 == 0
    meta["confirmed"] = confirmed
    print("confirm: demo without patch rc=%d, with patch rc=%d, suite with patch rc=%d -> %s" % (rc, rc2, rc3, "CONFIRMED" if confirmed else "NOT CONFIRMED"))
    # 2. run the checks on /repo with the change applied
    results = {}
    if confirmed:
        st = subprocess.run(["git", "-C", REPO, "status", "--porcelain", "--untracked-files=no"], stdout=subprocess.PIPE, text=True).stdout.strip()
        if st:
            print("/repo has uncommitted changes; refusing to apply the seeded change")
            return 4
        rc_a, out_a = sh(["git", "-C", REPO, "apply", patch])
        try:
            for c in checks:
                t0 = time.time()
                rc4, out4 = sh([os.path.join(VERIF, "check"), c, "--tier", tier], cwd=VERIF, timeout=7200)
                lines = [l for l in out4.splitlines() if l.startswith(("VIOLATION", "KNOWN-FINDING", "INCONCLUSIVE", "property="))]
                results[c] = {"rc": rc4, "wall_s": round(time.time() - t0, 1), "lines": [l[:400] for l in lines[:12]],
                              "detail": [l[:300] for l in out4.splitlines() if l.startswith("  case=")][:6]}
                print("check %s --tier %s on the seeded tree: rc=%d (%.0fs)" % (c, tier, rc4, time.time() - t0))
                for l in lines[:6]:
                    print("   ", l[:300])
                meta["ran"].append("./check %s --tier %s   (with the change applied to /repo): rc=%d" % (c, tier, rc4))
        finally:
            sh(["git", "-C", REPO, "checkout", "--", "."])
    meta["checks"] = results
    meta["detected_by"] = [c for c, r in results.items() if r["rc"] == 1]
    finish(meta, sid, patch, demo, mdir)
    return 0


def finish(meta, sid, patch, demo, mdir):
    d = os.path.join(VERIF, "seeded", sid)
    os.makedirs(d, exist_ok=True)
    same = os.path.abspath(mdir) == os.path.abspath(d)
    if not same:
        shutil.copyfile(patch, os.path.join(d, "patch.diff"))
        shutil.copyfile(demo, os.path.join(d, "demo.rs"))
    rd = os.path.join(mdir, "README.md")
    if os.path.exists(rd):
        if not same:
            shutil.copyfile(rd, os.path.join(d, "README.md"))
        meta["needs_to_manifest"] = open(rd).read()[:1500]
    with open(os.path.join(d, "meta.json"), "w") as f:
        json.dump(meta, f, indent=1)


if __name__ == "__main__":
    sys.exit(main())
