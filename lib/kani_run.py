"""Engine A (Kani) driver — filled in below."""
def run(prop, tier, seed, here, findings, match_finding):
    print("INCONCLUSIVE property=%s: kani driver not built yet" % prop)
    return 2
def replay(j):
    return 2
