"""Engine A driver: Kani/CBMC proof harnesses over the compiled crate (C08 integer shape arithmetic, C18 generator)."""
import json
import os
import re
import shutil
import subprocess
import time
from concurrent.futures import ThreadPoolExecutor

import build

KANI_DIR = os.path.join(build.VERIF, "kani")
REJECT = "must have a square output"

# name, tiers, timeout (s), expected library rejection allowed, what it claims
HARNESSES = {
    "C18": [
        ("c18_generate_unit_all_states", "qt", 300, False, "generate(0,1) in [0,1] for every state < 2^31-1"),
        ("c18_generate_any_seed", "qt", 300, False, "no overflow panic and values in range for every 64-bit seed (two calls)"),
        ("c18_generate_minmax", "qt", 600, False, "generate(min,max) in [min,max] for every state and all finite min<=max with |.|<=1e6"),
        ("c18_generate_minmax_wide", "qt", 600, False, "generate(min,max) in [min,max] for every state and ALL finite min<=max (the width max-min may overflow to +inf; state 0 then multiplies 0 by inf)"),
        ("c18_purity_multiples_of_modulus", "qt", 600, False, "two generators created from the same seed k*(2^31-1), k in {0,1,2,1000,2^32,8589934588}, agree on their first two values (arbitrary clock)"),
        ("c18_purity_one_step", "qt", 600, False, "two generators created from the same seed agree bit-for-bit on the first value, every state"),
        ("c18_purity_two_steps_small_seeds", "qt", 900, False, "… and on the first two values for seeds < 2^16"),
        ("c18_purity", "t", 3600, False, "two generators created from the same seed produce bit-identical sequences (2 steps), every state"),
        ("c18_shuffle_len1", "qt", 300, False, "shuffle of 1 element: no panic, permutation, every state"),
        ("c18_shuffle_len2", "qt", 600, False, "shuffle of 2 elements: no panic, permutation, every state"),
        ("c18_shuffle_len3", "qt", 900, False, "shuffle of 3 elements: no panic, permutation, every state"),
        ("c18_shuffle_len4", "t", 1800, False, "shuffle of 4 elements: no panic, permutation, every state"),
        ("c18_shuffle_index_any_length", "qt", 600, False, "generate(0,len) in [0,len] for every state and every len <= 2^24 (the index argument of every shuffle step)"),
        ("c18_tensor_random_single", "qt", 600, False, "Tensor::random(Single(2)) has the requested length and entries in [min,max] for an arbitrary clock"),
        ("c18_tensor_random_triple", "qt", 600, False, "Tensor::random(Triple(1,1,2)): nesting and range for an arbitrary clock"),
        ("c18_tensor_random_double", "t", 600, False, "Tensor::random(Double(2,1)): nesting and range for an arbitrary clock"),
    ],
    "C07": [
        ("c07_relu_every_finite_float", "t", 900, False, "ReLU forward/backward on a flat 1-element tensor equal max(0,x) / [x>0] for every finite f32"),
        ("c07_leaky_relu_every_finite_float", "t", 900, False, "LeakyReLU forward/backward equal x|0.01x / 1|0.01 for every finite f32"),
        ("c07_linear_every_finite_float", "t", 900, False, "Linear forward/backward equal x / 1 for every finite f32"),
    ],
    "C08": [
        ("c08_conv_shape", "qt", 900, False, "Convolution::create announces the standard output shape for all ic<=3,f<=2,ih,iw<=64,k<=8,s<=4,p<=3,d<=3 whose effective kernel fits"),
        ("c08_deconv_shape", "qt", 900, False, "Deconvolution::create announces (i-1)s+k-2p for all ih,iw<=64,k<=8,s<=4,p<=3"),
        ("c08_pool_shape", "qt", 900, False, "Maxpool::create announces (i-k)/s+1 for all ih,iw<=64,k<=8,s<=4"),
        ("c08_flat_accept_conv", "qt", 900, True, "Convolution::create(Single(n)), n<=2^32: accepted => n=r*r read as 1xrxr"),
        ("c08_flat_accept_deconv", "qt", 900, True, "Deconvolution::create(Single(n)), n<=2^32: accepted => n=r*r read as 1xrxr"),
        ("c08_flat_accept_pool", "qt", 900, True, "Maxpool::create(Single(n)), n<=2^32: accepted => n=r*r read as 1xrxr"),
        ("c08_square_accepted_conv", "qt", 900, False, "Convolution::create(Single(r*r)), r<=4096 is accepted (no panic reachable)"),
        ("c08_square_accepted_deconv", "qt", 900, False, "Deconvolution::create(Single(r*r)), r<=4096 is accepted"),
        ("c08_square_accepted_pool", "qt", 900, False, "Maxpool::create(Single(r*r)), r<=4096 is accepted"),
    ],
}

IGNORED_DESCRIPTIONS = ("NaN on ", "arithmetic overflow on floating-point")


def target_dir():
    return os.path.join(build.WORK, "target-kani")


def kani_env():
    env = dict(os.environ)
    env["CARGO_NET_OFFLINE"] = "true"
    env.pop("RUSTUP_TOOLCHAIN", None)
    env.pop("RUSTFLAGS", None)
    return env


def parse(out):
    """-> (verdict, seconds, failures[(description, location)], covers(sat, total), unwind_fail)"""
    fails = []
    for m in re.finditer(r"Check \d+: [^\n]*\n\s*- Status: (\w+)\n\s*- Description: \"(.*?)\"\n\s*- Location: ([^\n]*)", out, re.S):
        st, desc, loc = m.group(1), m.group(2), m.group(3)
        if st in ("FAILURE", "UNDETERMINED"):
            fails.append((st, desc.strip(), loc.strip()))
    v = re.search(r"VERIFICATION:- (\w+)", out)
    t = re.search(r"Verification Time: ([0-9.]+)s", out)
    c = re.search(r"\*\* (\d+) of (\d+) cover properties satisfied", out)
    nchecks = re.search(r"\*\* (\d+) of (\d+) failed", out)
    stubs = re.findall(r"- Stub: (.*)", out)
    return {
        "verdict": v.group(1) if v else None,
        "seconds": float(t.group(1)) if t else None,
        "fails": fails,
        "covers": (int(c.group(1)), int(c.group(2))) if c else None,
        "checks": int(nchecks.group(2)) if nchecks else None,
        "stubs": stubs,
    }


def run_harness(name, timeout, extra=()):
    # harnesses without their own bound get 8 (loops and recursion, e.g. std's Timespec::sub_timespec, which calls itself
    # with swapped arguments); Kani's unwinding assertions report a bound that is too small
    cmd = ["cargo", "kani", "-Z", "stubbing", "--default-unwind", "8", "--harness", name, "--target-dir", target_dir()] + list(extra)
    t0 = time.time()
    try:
        p = subprocess.run(cmd, cwd=KANI_DIR, env=kani_env(), stdout=subprocess.PIPE, stderr=subprocess.STDOUT, text=True, timeout=timeout)
        return p.returncode, p.stdout, time.time() - t0, False
    except subprocess.TimeoutExpired as e:
        out = e.stdout if isinstance(e.stdout, str) else (e.stdout.decode() if e.stdout else "")
        subprocess.run(["pkill", "-f", "cbmc.*%s" % name], stdout=subprocess.DEVNULL, stderr=subprocess.DEVNULL)
        return -1, out, time.time() - t0, True


def playback_values(name, timeout):
    """one list of integer values per failing check: [(check description, [values…])]"""
    rc, out, dt, to = run_harness(name, timeout, extra=["-Z", "concrete-playback", "--concrete-playback=print"])
    tests = []
    for m in re.finditer(r"/// Check for `([^`]*)`: \"(.*?)\"\n(?:(?!/// Check for).)*?let concrete_vals: Vec<Vec<u8>> = vec!\[(.*?)\];", out, re.S):
        if m.group(1) == "cover":
            continue
        desc = m.group(2).strip('"')
        vals = []
        for vm in re.finditer(r"vec!\[([0-9, ]*)\]", m.group(3)):
            bs = [int(x) for x in vm.group(1).replace(" ", "").split(",") if x]
            vals.append(int.from_bytes(bytes(bs), "little"))
        tests.append((desc, vals))
    return tests


def run(prop, tier, seed, here, findings, match_finding):
    t_start = time.time()
    tl = "q" if tier == "quick" else "t"
    hs = [h for h in HARNESSES[prop] if tl in h[1]]
    lock = os.path.join(KANI_DIR, "Cargo.lock")
    # the harness crate builds /repo's current working tree with the hooks on
    try:
        shutil.copyfile(os.path.join(build.REPO, "Cargo.lock"), lock)
    except OSError:
        pass
    # one codegen-only pass first so that the parallel runs below share a warm target directory
    t0 = time.time()
    p = subprocess.run(["cargo", "kani", "-Z", "stubbing", "--only-codegen", "--target-dir", target_dir()], cwd=KANI_DIR, env=kani_env(),
                       stdout=subprocess.PIPE, stderr=subprocess.STDOUT, text=True, timeout=1800)
    t_build = time.time() - t0
    if p.returncode != 0:
        print("INCONCLUSIVE property=%s: the Kani harness crate does not build against /repo: %s" % (prop, p.stdout[-1500:]))
        write_ev(here, prop, tier, seed, [], t_start, "build failed", [])
        return 2

    def one(h):
        name, _, timeout, reject_ok, claim = h
        rc, out, dt, to = run_harness(name, timeout)
        r = parse(out)
        r.update({"name": name, "claim": claim, "wall": dt, "timeout": to, "reject_ok": reject_ok, "rc": rc})
        if not to and r["verdict"] is None:
            r["raw_tail"] = out[-800:]
        return r

    with ThreadPoolExecutor(max_workers=8) as ex:
        results = list(ex.map(one, hs))
    violations, known, inconclusive = [], [], []
    replay_bins = None
    for r in results:
        if r["timeout"]:
            inconclusive.append("%s: timeout after %ds" % (r["name"], r["wall"]))
            continue
        if r["verdict"] is None:
            inconclusive.append("%s: no verdict (%s)" % (r["name"], r.get("raw_tail", "")[-300:]))
            continue
        real_fails = []
        for st, desc, loc in r["fails"]:
            if any(desc.startswith(x) for x in IGNORED_DESCRIPTIONS):
                continue
            if r["reject_ok"] and REJECT in desc:
                continue  # the documented rejection of a non-square flat size
            real_fails.append((st, desc, loc))
        r["real_fails"] = real_fails
        if r["covers"] and r["covers"][0] < r["covers"][1] and not real_fails:
            inconclusive.append("%s: vacuity witness not satisfied (%d of %d cover properties)" % (r["name"], r["covers"][0], r["covers"][1]))
        if not real_fails:
            continue
        if any("unwinding assertion" in d for _, d, _ in real_fails):
            inconclusive.append("%s: unwinding assertion failed (bound too small for this tree)" % r["name"])
            continue
        if any(st == "UNDETERMINED" for st, _, _ in real_fails) and not any(st == "FAILURE" for st, _, _ in real_fails):
            inconclusive.append("%s: undetermined checks: %s" % (r["name"], real_fails[:2]))
            continue
        # counterexample -> concrete values -> native re-run in debug and release
        if replay_bins is None:
            try:
                replay_bins = [build.build_replay()[0], build.build_replay(release=True)[0]]
            except build.BuildError as e:
                inconclusive.append("replay build failed: %s" % str(e)[:300])
                replay_bins = []
        tests = [t for t in playback_values(r["name"], 1200) if not (r["reject_ok"] and REJECT in t[0]) and not any(t[0].startswith(x) for x in IGNORED_DESCRIPTIONS)]
        reproduced, outs = False, []
        for desc, vals in tests[:4]:
            for b in replay_bins:
                cmd = [b, "--kani", r["name"]] + [str(v) for v in vals] + (["--reject-ok"] if r["reject_ok"] else [])
                pr = subprocess.run(cmd, stdout=subprocess.PIPE, stderr=subprocess.STDOUT, text=True, timeout=120)
                line = pr.stdout.strip().splitlines()[-1] if pr.stdout.strip() else "(no output)"
                outs.append({"check": desc[:120], "values": vals, "cmd": " ".join(cmd), "native": line})
                if "verdict=REPRODUCED" in line:
                    reproduced = True
        no_native = any("NO-NATIVE-COUNTERPART" in o["native"] for o in outs)
        r["replays"] = outs
        os.makedirs(os.path.join(build.WORK, "replay", prop), exist_ok=True)
        rfile = os.path.join(build.WORK, "replay", prop, r["name"] + ".json")
        with open(rfile, "w") as f:
            json.dump({"engine": "kani", "property": prop, "harness": r["name"], "claim": r["claim"], "failed_checks": real_fails, "replays": outs}, f, indent=1)
        role = real_fails[0][1][:60]
        fnd = match_finding(findings, prop, r["name"], "kani", role)
        if reproduced or (no_native and real_fails):
            (known if fnd else violations).append((r, rfile, fnd))
        else:
            inconclusive.append("%s: Kani counterexample does not reproduce natively (%s)" % (r["name"], outs[:1]))
    for r, rfile, fnd in known:
        print("KNOWN-FINDING: property=%s %s [%s]" % (prop, fnd["what"], fnd["id"]))
    for r, rfile, _ in violations:
        print("VIOLATION property=%s replay=%s" % (prop, rfile))
        print("  harness=%s failed checks: %s" % (r["name"], "; ".join("%s @ %s" % (d[:100], l[-80:]) for _, d, l in r["real_fails"][:3])))
        for o in r.get("replays", [])[:2]:
            print("  native: %s" % o["native"])
    for m in inconclusive:
        print("INCONCLUSIVE property=%s: %s" % (prop, m))
    write_ev(here, prop, tier, seed, results, t_start, None, inconclusive, t_build, len(violations), len(known))
    print("property=%s tier=%s harnesses=%d verified=%d known=%d violations=%d inconclusive=%d wall=%.1fs" % (
        prop, tier, len(results), sum(1 for r in results if not r.get("real_fails") and r["verdict"]), len(known), len(violations), len(inconclusive), time.time() - t_start))
    if violations:
        return 1
    if inconclusive:
        return 2
    return 0


def write_ev(here, prop, tier, seed, results, t_start, why, inconclusive, t_build=0.0, nviol=0, nknown=0):
    checks = sum((r.get("checks") or 0) for r in results)
    ok = [r for r in results if r.get("verdict") and not r.get("real_fails")]
    ev = {
        "property_id": prop, "tier": tier, "seed": seed, "level": "other",
        "coverage": {
            "explanation": ("INCONCLUSIVE: " + why) if why else
            "Kani 0.68 / CBMC 6.11 bounded model checking of the compiled /repo (feature verif, rebuilt this run): each harness makes the inputs "
            "kani::any() within the stated ranges and the SAT solver decides every assertion, overflow, index and unwinding check for all values at once.",
            "functions_encoded": sorted(set(["random::Generator::{create,generate,shuffle}", "tensor::Tensor::random"] if prop == "C18" else
                                            (["activation::{ReLU,LeakyReLU,Linear}::{forward,backward}"] if prop == "C07" else
                                             ["Convolution::create", "Deconvolution::create", "Maxpool::create", "*::calculate_output_size"]))),
            "bounds": {r["name"]: r["claim"] for r in results},
            "harnesses": len(results), "obligations": checks, "discharged": sum((r.get("checks") or 0) for r in ok),
            "evaluations": len(results), "distinct_nontrivial": len(results),
            "rule": "one evaluation = one proof harness (all inputs symbolic within its bound); obligations = CBMC checks (assertions, overflow, bounds, unwinding) across harnesses",
            "stubs": sorted(set(s for r in results for s in (r.get("stubs") or []))),
            "solver_seconds": round(sum((r.get("seconds") or 0) for r in results), 2),
            "build_seconds": round(t_build, 1),
            "samples": [{"harness": r["name"], "verdict": r.get("verdict"), "cbmc_checks": r.get("checks"), "seconds": r.get("seconds"), "covers": r.get("covers"),
                         "failed": [d[:100] for _, d, _ in (r.get("real_fails") or [])][:3]} for r in results],
            "checker_cmd": "cargo kani -Z stubbing --harness <name>",
            "trusted_base": ["kani 0.68.0", "cbmc 6.11.0 (cadical)", "the stubs listed", "rustc (kani toolchain)"],
            "inconclusive": inconclusive[:20],
            "known_findings": nknown,
        },
        "assumptions": [
            "Tensor::random is stubbed to allocate nothing in the C08 harnesses (cuts SystemTime::now and symbolic-size allocation); SystemTime::now is stubbed to an arbitrary instant in the Tensor::random harnesses",
            "unwinding assertions stay on; Tensor/layer values are mem::forget-ed at the end of harnesses (drop glue is not part of the property)",
            "the library's own rejection panic for a non-square flat size is the expected outcome in the c08_flat_accept_* harnesses",
            "CBMC's optional float NaN checks are not panics in Rust and are ignored",
        ],
        "wall_s": round(time.time() - t_start, 2),
        "violations": nviol,
    }
    os.makedirs(os.path.join(here, "evidence"), exist_ok=True)
    with open(os.path.join(here, "evidence", prop + ".json"), "w") as f:
        json.dump(ev, f, indent=1)


def replay(j):
    for o in j.get("replays", []):
        print(o["cmd"])
        p = subprocess.run(o["cmd"].split(" "), stdout=subprocess.PIPE, stderr=subprocess.STDOUT, text=True)
        print(p.stdout.strip())
        if "verdict=REPRODUCED" in p.stdout:
            return 1
    return 0
