"""Solver portfolio: batched first pass (one resident z3 with push/pop per group), then an individual
portfolio pass (z3-new / z3 / cvc5) for everything the batch did not decide, then model extraction."""
import json
import os
import re
import struct
import shutil
import subprocess
import tempfile
import time
from concurrent.futures import ThreadPoolExecutor
from fractions import Fraction

Z3NEW = "z3-new"
Z3OLD = "/usr/bin/z3"
CVC5 = "cvc5"

HEADER_RE = re.compile(r"^\(set-logic ALL\)\n")


def strip_logic(smt):
    return HEADER_RE.sub("", smt, count=1)


def _run(cmd, inp=None, timeout=None):
    t0 = time.time()
    try:
        p = subprocess.run(cmd, input=inp, stdout=subprocess.PIPE, stderr=subprocess.STDOUT, text=True, timeout=timeout)
        return p.stdout, time.time() - t0, False
    except subprocess.TimeoutExpired as e:
        out = e.stdout if isinstance(e.stdout, str) else (e.stdout.decode() if e.stdout else "")
        return out, time.time() - t0, True


def batch_z3(obls, per_query_ms=3000, solver=Z3NEW):
    """Decide a list of obligations in one solver process. Returns list of verdicts ('unsat'|'sat'|'unknown').
    The soft per-query timeout is not always honoured by the nonlinear engine, so the whole session also has a hard
    wall limit; answers printed before the limit are kept, the rest is 'unknown' (decided individually afterwards)."""
    if not obls:
        return [], 0.0
    parts = ["(set-logic ALL)\n"]
    for o in obls:
        parts.append("(push 1)\n")
        parts.append(strip_logic(o["smt"]))
        parts.append("(check-sat)\n(pop 1)\n")
    text = "".join(parts)
    hard = 20 + 0.25 * len(obls)
    out, dt, to = _run([solver, "-in", "-t:%d" % per_query_ms], inp=text, timeout=hard)
    verdicts = []
    err = False
    for line in out.splitlines():
        line = line.strip()
        if line in ("sat", "unsat", "unknown", "timeout"):
            verdicts.append("unknown" if line == "timeout" else line)
        elif line.startswith("(error"):
            err = True
    if err:
        # something went wrong in the session: nothing from it is believed
        return ["unknown"] * len(obls), dt
    if len(verdicts) < len(obls):
        if not to:
            return ["unknown"] * len(obls), dt
        verdicts = verdicts + ["unknown"] * (len(obls) - len(verdicts))
    return verdicts[:len(obls)], dt


def solver_cmds(theory, timeout_s):
    ms = int(timeout_s * 1000)
    z3n = ("z3-new", [Z3NEW, "-T:%d" % max(1, int(timeout_s))])
    z3o = ("z3", [Z3OLD, "-T:%d" % max(1, int(timeout_s))])
    cv = ("cvc5", [CVC5, "--lang", "smt2", "--tlimit=%d" % ms, "--produce-models"])
    cvn = ("cvc5-nl", [CVC5, "--lang", "smt2", "--tlimit=%d" % ms, "--produce-models", "--nl-cov", "--nl-ext=none"])
    if theory == "fp":
        return [cv, z3n]
    return [z3n, z3o, cv]


def parse_sexp(s):
    toks = re.findall(r"\(|\)|[^\s()]+", s)
    pos = 0

    def rd():
        nonlocal pos
        t = toks[pos]
        pos += 1
        if t == "(":
            lst = []
            while toks[pos] != ")":
                lst.append(rd())
            pos += 1
            return lst
        return t

    out = []
    while pos < len(toks):
        out.append(rd())
    return out


def real_value(e):
    """Evaluate a get-value real term to a Fraction (or float for approximations); None if not understood."""
    if isinstance(e, str):
        t = e.rstrip("?")
        try:
            return Fraction(t)
        except Exception:
            return None
    if not e:
        return None
    op = e[0]
    if op == "-" and len(e) == 2:
        v = real_value(e[1])
        return None if v is None else -v
    if op in ("+", "-", "*", "/") and len(e) >= 3:
        vs = [real_value(x) for x in e[1:]]
        if any(v is None for v in vs):
            return None
        r = vs[0]
        for v in vs[1:]:
            if op == "+":
                r += v
            elif op == "-":
                r -= v
            elif op == "*":
                r *= v
            else:
                if v == 0:
                    return None
                r /= v
        return r
    if op == "to_real" and len(e) == 2:
        return real_value(e[1])
    return None


def f32_bits(x):
    return struct.unpack("<I", struct.pack("<f", x))[0]


def fp_value(e):
    """bits of a Float32 get-value term"""
    if isinstance(e, list):
        if len(e) == 4 and e[0] == "fp":
            s, ex, m = e[1], e[2], e[3]
            def b(t):
                if t.startswith("#b"):
                    return t[2:]
                if t.startswith("#x"):
                    return bin(int(t[2:], 16))[2:].zfill(4 * (len(t) - 2))
                return None
            sb, eb, mb = b(s), b(ex), b(m)
            if None in (sb, eb, mb):
                return None
            return int(sb + eb.zfill(8) + mb.zfill(23), 2)
        if len(e) == 4 and e[0] == "_":
            kind = e[1]
            return {"+zero": 0x00000000, "-zero": 0x80000000, "+oo": 0x7F800000, "-oo": 0xFF800000, "NaN": 0x7FC00000}.get(kind)
    return None


def extract_model(out, obl):
    """name -> f32 bits from a `(get-value …)` answer"""
    idx = out.find("((")
    if idx < 0:
        return {}
    try:
        sx = parse_sexp(out[idx:])
    except Exception:
        return {}
    sym2name = {s: n for n, s in obl["vars"]}
    model = {}
    for top in sx:
        if not isinstance(top, list):
            continue
        for pair in top:
            if isinstance(pair, list) and len(pair) == 2 and isinstance(pair[0], str) and pair[0] in sym2name:
                if obl["theory"] == "fp":
                    b = fp_value(pair[1])
                else:
                    v = real_value(pair[1])
                    b = None
                    if v is not None:
                        try:
                            b = f32_bits(float(v))
                        except OverflowError:
                            b = f32_bits(float("inf") if v > 0 else float("-inf"))
                if b is not None:
                    model[sym2name[pair[0]]] = b
    return model


# 8 GB of address space per solver process (62 GB, no swap, up to 16 solver processes): a solver that needs more dies and
# its answer counts as `unknown`. (A wrapper command, not preexec_fn: forking the multi-GB driver for every query is slow.)
_MEMLIMIT = ["prlimit", "--as=%d" % (8 * 1024 ** 3)] if shutil.which("prlimit") else []


def solve_one(obl, timeout_s, want_model=True, extra="", second_opinion=False):
    """Float32 obligations: cvc5 alone for 60 % of the budget, then z3-new for the rest (cvc5 wins almost always and two
    bit-blasting processes per obligation only slow each other down on a loaded machine); everything else: parallel portfolio."""
    if obl["theory"] == "fp" and not second_opinion and timeout_s >= 10:
        first = _solve_with(obl, timeout_s * 0.6, want_model, extra, False, only=["cvc5"])
        if first["verdict"] in ("sat", "unsat"):
            return first
        second = _solve_with(obl, timeout_s * 0.4, want_model, extra, False, only=["z3-new"])
        second["seconds"] += first["seconds"]
        second["log"] = first["log"] + second["log"]
        return second
    return _solve_with(obl, timeout_s, want_model, extra, second_opinion)


def _solve_with(obl, timeout_s, want_model=True, extra="", second_opinion=False, only=None):
    """Parallel portfolio on one obligation: all solvers start together, the first decisive answer wins.
    Returns dict(verdict, solver, seconds, model, log)."""
    smt = obl["smt"] + extra + "(check-sat)\n"
    syms = [s for _, s in obl["vars"]]
    procs = []
    t0 = time.time()
    for name, cmd in solver_cmds(obl["theory"], timeout_s):
        if only and name not in only:
            continue
        f = tempfile.NamedTemporaryFile("w", suffix=".smt2", delete=False)
        if name.startswith("z3"):
            f.write("(set-option :pp.decimal true)\n(set-option :pp.decimal_precision 20)\n")
        f.write(smt)
        if want_model and syms:
            f.write("(get-value (%s))\n" % " ".join(syms))
        f.close()
        p = subprocess.Popen(_MEMLIMIT + cmd + [f.name], stdout=subprocess.PIPE, stderr=subprocess.STDOUT, text=True)
        procs.append([name, p, f.name, None])
    answers, log = {}, []
    verdict, model, who = "unknown", {}, None
    need = 2 if second_opinion else 1
    deadline = t0 + timeout_s + 10
    pending = list(procs)
    while pending and len(answers) < need and time.time() < deadline:
        progressed = False
        for rec in list(pending):
            name, p, path, _ = rec
            if p.poll() is None:
                continue
            progressed = True
            pending.remove(rec)
            out = p.stdout.read()
            first = out.strip().splitlines()[0].strip() if out.strip() else ""
            # an `(error` line after `unsat` comes from the (get-value) we appended: harmless there
            bad = "(error" in out and first != "unsat"
            dt = time.time() - t0
            log.append((name, first if not bad else "error", round(dt, 3)))
            if first in ("sat", "unsat") and not bad:
                answers[name] = first
                if verdict == "unknown":
                    verdict, who = first, name
                    if first == "sat":
                        model = extract_model(out, obl)
        if not progressed:
            time.sleep(0.01)
    for name, p, path, _ in procs:
        if p.poll() is None:
            p.kill()
            try:
                p.wait(timeout=5)
            except Exception:
                pass
        try:
            p.stdout.close()
        except Exception:
            pass
        try:
            os.unlink(path)
        except OSError:
            pass
    for name, p, path, _ in procs:
        if name not in [l[0] for l in log]:
            log.append((name, "killed/timeout", round(time.time() - t0, 3)))
    disagree = len(set(answers.values())) > 1
    return {"verdict": "disagree" if disagree else verdict, "solver": who, "seconds": time.time() - t0, "model": model, "log": log}


def margin_extra(obl):
    """Extra assertions for a replay-friendly counterexample of a real-arithmetic equality: moderate magnitudes and a visible gap."""
    if obl["theory"] != "real" or obl.get("kind") not in ("eq", "grad"):
        return None
    ex = []
    for _, s in obl["vars"]:
        ex.append("(assert (and (<= (- 4.0) %s) (<= %s 4.0)))\n" % (s, s))
    et = obl.get("eq_terms")
    if et:
        ex.append("(assert (or (>= (- %s %s) 0.125) (>= (- %s %s) 0.125)))\n" % (et[0], et[1], et[1], et[0]))
    return "".join(ex)


def decide_all(obls, tier, workers=16, log=None, models=True, on_sat=None, stop_after=6, cap=None, batch=True):
    """Decide every obligation. Mutates each obligation dict with 'verdict', 'solver', 'seconds', 'model'.
    `on_sat(o) -> bool` is called for every obligation that came back `sat` with a model (it replays the model natively
    and returns True for a confirmed, unlisted violation); once `stop_after` violations are confirmed the remaining
    undecided obligations are left 'skipped' — the run is a VIOLATION whatever they are."""
    cap = cap or (180 if tier == "quick" else 400)
    t0 = time.time()
    # wall-clock budget of the whole deciding phase (clean-tree runs need < 2 min quick / < 10 min thorough): once it is
    # spent, obligations still open are `unknown` — the run is then inconclusive (exit 2) unless a violation was confirmed
    deadline = t0 + (900 if tier == "quick" else 3600)
    # pass 1: batches per (case, theory) with a short per-query limit
    groups = {}
    for o in obls:
        if not batch or (o["theory"] == "fp" and not o.get("trivial")):
            # bit-blasting queries do not belong in the short-timeout batch: straight to the portfolio
            o.update({"verdict": "unknown", "solver": None, "seconds": 0.0, "model": {}})
            continue
        groups.setdefault((o["case"], o["theory"]), []).append(o)
    chunks = []
    for key, lst in groups.items():
        for i in range(0, len(lst), 200):
            chunks.append(lst[i:i + 200])

    def do_chunk(ch):
        solver = Z3NEW
        ms = 2000 if ch[0]["theory"] == "real" else 1000
        v, dt = batch_z3(ch, per_query_ms=ms, solver=solver)
        for o, verdict in zip(ch, v):
            o["verdict"] = verdict
            o["solver"] = "z3-new(batch)"
            o["seconds"] = dt / max(1, len(ch))
            o["model"] = {}
        return dt

    with ThreadPoolExecutor(max_workers=workers) as ex:
        batch_secs = sum(ex.map(do_chunk, chunks))
    # pass 2: everything not 'unsat' goes to the portfolio individually ('sat' first, to get a model from a fresh run)
    todo = [o for o in obls if o["verdict"] != "unsat" and (models or o["verdict"] != "sat")]
    # 'sat' first (models are cheap to get); then round-robin over the cases so that every case is looked at early
    rank = {}
    for o in todo:
        rank[id(o)] = sum(1 for _ in ())  # placeholder
    seen = {}
    for o in todo:
        seen[o["case"]] = seen.get(o["case"], 0) + 1
        rank[id(o)] = seen[o["case"]]
    todo.sort(key=lambda o: (0 if o["verdict"] == "sat" else 1, rank[id(o)]))
    confirmed = [0]
    skipped = [0]
    violated_cases = set()

    def do_one(o, phase):
        """phase 1: the cheap steps (abstracted identity, 3 s Float32 query, candidate counterexamples confirmed natively) for
        EVERY open obligation; phase 2: the long solver run under the tier cap for what is still open. A violation that cheap
        steps can find is therefore found before any long run starts."""
        if phase == 2 and not o.get("_open"):
            return
        if time.time() > deadline and o["verdict"] != "sat":
            if phase == 2 or o["verdict"] != "unsat":
                o.update({"verdict": "unknown", "solver": None, "model": {}, "solver_log": [("budget", "wall-clock budget of the deciding phase exhausted", 0.0)]})
            o["_open"] = False
            return
        if confirmed[0] >= stop_after or (o["case"] in violated_cases and o["verdict"] != "sat"):
            # after 6 confirmed violations, or once this obligation's own case has one (the case is a VIOLATION already)
            if o["verdict"] != "sat":
                o["verdict"] = "skipped"
            skipped[0] += 1
            return
        r = None
        if phase == 1:
            o["_open"] = False
        if phase == 1 and o["theory"] == "fp" and o.get("smt_abs"):
            # the identity with the common sub-terms of both sides abstracted away: `unsat` discharges the obligation
            ab = {"smt": o["smt_abs"], "vars": [], "theory": "fp", "kind": "claim"}
            rab = solve_one(ab, 20, want_model=False)
            if rab["verdict"] == "unsat":
                o.update({"verdict": "unsat", "solver": (rab["solver"] or "") + "(common sub-terms abstracted)", "seconds": o.get("seconds", 0) + rab["seconds"], "model": {}, "solver_log": rab["log"]})
                return
        quick_fp = None
        if phase == 1 and o["theory"] == "fp" and on_sat is not None:
            # most Float32 identities of a correct tree are refuted in well under 3 s; only the stubborn ones get candidates
            quick_fp = solve_one(o, 3)
            if quick_fp["verdict"] in ("unsat", "sat"):
                o.update({"verdict": quick_fp["verdict"], "solver": quick_fp["solver"], "seconds": o.get("seconds", 0) + quick_fp["seconds"], "model": quick_fp["model"], "solver_log": quick_fp["log"]})
                if o["verdict"] == "sat" and on_sat(o):
                    confirmed[0] += 1
                    violated_cases.add(o["case"])
                return
        if quick_fp is not None:
            # candidate counterexample from the real reading of a Float32 identity (confirmed natively or discarded)
            ra = {"verdict": "none", "model": {}}
            if o.get("smt_real"):
                alt = {"smt": o["smt_real"], "vars": o["vars_real"], "theory": "real", "kind": "claim"}
                ex = "".join("(assert (and (<= (- 4.0) %s) (<= %s 4.0)))\n" % (s_, s_) for _, s_ in alt["vars"])
                ra = solve_one(alt, 10, extra=ex)
            if ra["verdict"] == "sat" and ra["model"]:
                saved = (o.get("verdict"), o.get("model"))
                o["model"] = ra["model"]
                o["verdict"] = "sat"
                o["solver"] = (ra["solver"] or "") + "(real candidate)"
                try:
                    hit = on_sat(o)
                except Exception as e:
                    hit = False
                    o["replay_error"] = str(e)
                if o.get("reproduced"):
                    if hit:
                        confirmed[0] += 1
                        violated_cases.add(o["case"])
                    return
                # not reproduced: forget the candidate
                o["verdict"], o["model"] = saved
                o.pop("reproduced", None)
                o.pop("replay_out", None)
            # second candidate source: seeded native assignments (the replay binary tries 40 of them); a Float32 identity
            # whose real reading is valid typically fails by re-association, which bit-blasting a large DAG cannot find in time
            saved = (o.get("verdict"), o.get("model"))
            o["model"] = {}
            o["verdict"] = "sat"
            o["solver"] = "native-assignment-search"
            try:
                hit = on_sat(o)
            except Exception as e:
                hit = False
                o["replay_error"] = str(e)
            if o.get("reproduced"):
                if hit:
                    confirmed[0] += 1
                    violated_cases.add(o["case"])
                return
            o["verdict"], o["model"] = saved
            o["solver"] = None
            o.pop("reproduced", None)
            o.pop("replay_out", None)
        if phase == 1 and o["theory"] == "fp" and on_sat is not None:
            # still open after the cheap steps: the long run happens in phase 2
            o["_open"] = True
            return
        if confirmed[0] >= 1 and o["verdict"] != "sat":
            # a violation is already confirmed (the run is a VIOLATION whatever this obligation is): no long solver run
            o["verdict"] = "skipped"
            skipped[0] += 1
            return
        if o["verdict"] == "sat":
            ex = margin_extra(o)
            if ex:
                r = solve_one(o, min(cap, 10), extra=ex)
                if r["verdict"] != "sat" or not r["model"]:
                    r = None
        if r is None:
            r = solve_one(o, cap if phase == 2 else min(cap, 20))
            if phase == 1 and r["verdict"] not in ("sat", "unsat") and cap > 20:
                o["_open"] = True
                o["seconds"] = o.get("seconds", 0) + r["seconds"]
                return
        o.update({"verdict": r["verdict"], "solver": r["solver"], "seconds": o.get("seconds", 0) + r["seconds"], "model": r["model"], "solver_log": r["log"]})
        if on_sat is not None and o["verdict"] == "sat":
            try:
                if on_sat(o):
                    confirmed[0] += 1
                    violated_cases.add(o["case"])
            except Exception as e:  # a replay problem must not hide the verdict
                o["replay_error"] = str(e)

    with ThreadPoolExecutor(max_workers=max(2, workers // 2)) as ex:
        list(ex.map(lambda o: do_one(o, 1), todo))
    with ThreadPoolExecutor(max_workers=max(2, workers // 2)) as ex:
        list(ex.map(lambda o: do_one(o, 2), todo))
    for o in todo:
        o.pop("_open", None)
    # thorough: second opinion on a sample of fast unsat obligations
    checked = 0
    if tier == "thorough" and confirmed[0] == 0:
        sample = [o for o in obls if o["verdict"] == "unsat" and not o.get("trivial")][:: max(1, len(obls) // 400)]

        def second(o):
            r = solve_one(o, 10, want_model=False, second_opinion=True)
            o["second_opinion"] = r["log"]
            if r["verdict"] == "disagree" or (r["verdict"] == "sat"):
                o["verdict"] = "disagree"

        with ThreadPoolExecutor(max_workers=workers) as ex:
            list(ex.map(second, sample))
        checked = len(sample)
    return {"batch_solver_seconds": batch_secs, "wall_seconds": time.time() - t0, "second_opinions": checked, "skipped_after_violation": skipped[0]}
