"""Build steps shared by every check: regenerate the shadow crate from /repo's working tree,
build the symbolic harness (against the shadow) and the replay binary (against the real crate)."""
import hashlib
import os
import shutil
import subprocess
import sys
import time

VERIF = os.path.dirname(os.path.dirname(os.path.abspath(__file__)))
REPO = os.environ.get("VERIF_REPO", "/repo")
WORK = os.path.join(VERIF, ".work")
ENGINE = os.path.join(VERIF, "engine")

ENV = dict(os.environ)
ENV.update({"CARGO_NET_OFFLINE": "true", "RUSTFLAGS": ENV.get("RUSTFLAGS", "") + " -Awarnings", "CARGO_TERM_COLOR": "never"})
ENV.pop("RUSTUP_TOOLCHAIN", None)


class BuildError(Exception):
    pass


def run(cmd, cwd=None, env=None, timeout=1800, check=True):
    p = subprocess.run(cmd, cwd=cwd, env=env or ENV, stdout=subprocess.PIPE, stderr=subprocess.STDOUT, text=True, timeout=timeout)
    if check and p.returncode != 0:
        raise BuildError("command failed (%d): %s\n%s" % (p.returncode, " ".join(cmd), p.stdout[-6000:]))
    return p


def tool_target():
    return os.path.join(WORK, "target-tools")


def build_symgen():
    t0 = time.time()
    run(["cargo", "build", "--release", "--offline", "--target-dir", tool_target()], cwd=os.path.join(ENGINE, "symgen"))
    return os.path.join(tool_target(), "release", "symgen"), time.time() - t0


SHADOW_TOML = """[package]
name = "neurons"
version = "0.0.0"
edition = "2021"
description = "GENERATED shadow of /repo: every f32 is symrt::Sf32 (do not edit)"

[features]
verif = []

[dependencies]
symrt = {{ path = "{engine}/symrt" }}
rayon = {{ path = "{engine}/rayon_model" }}

[workspace]
"""


def gen_shadow():
    """Rewrite /repo/src/*.rs into WORK/shadow/src. Only rewrites files whose content changed (keeps cargo incremental)."""
    symgen, _ = build_symgen()
    shadow = os.path.join(WORK, "shadow")
    tmp = os.path.join(WORK, "shadow.tmp")
    shutil.rmtree(tmp, ignore_errors=True)
    os.makedirs(os.path.join(tmp, "src"))
    p = run([symgen, os.path.join(REPO, "src"), os.path.join(tmp, "src")], check=False)
    if p.returncode != 0:
        raise BuildError("symgen could not rewrite /repo/src (not encodable):\n" + p.stdout[-4000:])
    with open(os.path.join(tmp, "Cargo.toml"), "w") as f:
        f.write(SHADOW_TOML.format(engine=ENGINE))
    os.makedirs(os.path.join(shadow, "src"), exist_ok=True)
    want = set()
    for rel in ["Cargo.toml"] + ["src/" + n for n in sorted(os.listdir(os.path.join(tmp, "src")))]:
        want.add(rel)
        new = open(os.path.join(tmp, rel), "rb").read()
        dst = os.path.join(shadow, rel)
        old = open(dst, "rb").read() if os.path.exists(dst) else None
        if old != new:
            with open(dst, "wb") as f:
                f.write(new)
    for n in os.listdir(os.path.join(shadow, "src")):
        if "src/" + n not in want:
            os.remove(os.path.join(shadow, "src", n))
    shutil.rmtree(tmp, ignore_errors=True)
    h = hashlib.sha256()
    for n in sorted(os.listdir(os.path.join(REPO, "src"))):
        if n.endswith(".rs"):
            h.update(open(os.path.join(REPO, "src", n), "rb").read())
    return shadow, h.hexdigest()[:16]


def build_harness():
    t0 = time.time()
    gen_shadow()
    tdir = os.path.join(WORK, "target-harness")
    p = run(["cargo", "build", "--offline", "--target-dir", tdir], cwd=os.path.join(ENGINE, "harness"), check=False)
    if p.returncode != 0:
        raise BuildError("the shadow crate / harness does not build (the change uses Rust the rewriter or runtime cannot type):\n" + p.stdout[-6000:])
    return os.path.join(tdir, "debug", "harness"), time.time() - t0


def build_replay(release=False):
    t0 = time.time()
    tdir = os.path.join(WORK, "target-replay")
    cmd = ["cargo", "build", "--offline", "--target-dir", tdir] + (["--release"] if release else [])
    p = run(cmd, cwd=os.path.join(ENGINE, "replay"), check=False)
    if p.returncode != 0:
        raise BuildError("the replay binary does not build against /repo with feature verif:\n" + p.stdout[-6000:])
    return os.path.join(tdir, "release" if release else "debug", "replay"), time.time() - t0


if __name__ == "__main__":
    what = sys.argv[1] if len(sys.argv) > 1 else "all"
    try:
        if what in ("all", "harness"):
            print(build_harness())
        if what in ("all", "replay"):
            print(build_replay())
    except BuildError as e:
        print(str(e))
        sys.exit(2)
