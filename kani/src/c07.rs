//! C07 (cross-check, thorough tier) — an independent encoding of the element-wise activations that need no libm:
//! ReLU, LeakyReLU and Linear on a flat one-element tensor, for every finite f32 bit pattern.
use neurons::activation::{Activation, Function};
use neurons::tensor::{Data, Tensor};

fn one(t: &Tensor) -> f32 {
    match &t.data {
        Data::Single(v) if v.len() == 1 => v[0],
        _ => f32::NAN,
    }
}

fn any_finite() -> f32 {
    let x: f32 = kani::any();
    kani::assume(x.is_finite());
    x
}

#[kani::proof]
#[kani::unwind(4)]
fn c07_relu_every_finite_float() {
    let x = any_finite();
    let f = Function::create(&Activation::ReLU);
    let t = Tensor::single(vec![x]);
    let (y, d) = (f.forward(&t), f.backward(&t));
    let (yv, dv) = (one(&y), one(&d));
    assert!(yv == if x > 0.0 { x } else { 0.0 }, "relu(x) == max(0, x)");
    assert!(dv == if x > 0.0 { 1.0 } else { 0.0 }, "relu'(x) == [x > 0]");
    assert!(yv.is_finite() && dv.is_finite(), "finite");
    kani::cover!(x > 0.0 && x < 1.0e-40);
    std::mem::forget(t);
    std::mem::forget(y);
    std::mem::forget(d);
}

#[kani::proof]
#[kani::unwind(4)]
fn c07_leaky_relu_every_finite_float() {
    let x = any_finite();
    let f = Function::create(&Activation::LeakyReLU);
    let t = Tensor::single(vec![x]);
    let (y, d) = (f.forward(&t), f.backward(&t));
    let (yv, dv) = (one(&y), one(&d));
    assert!(yv.to_bits() == (if x > 0.0 { x } else { 0.01f32 * x }).to_bits() || (yv == 0.0 && x == 0.0), "leaky(x) == x or 0.01 x");
    assert!(dv == if x > 0.0 { 1.0 } else { 0.01 }, "leaky'(x) == 1 or 0.01");
    assert!(yv.is_finite() && dv.is_finite(), "finite");
    kani::cover!(x < 0.0);
    std::mem::forget(t);
    std::mem::forget(y);
    std::mem::forget(d);
}

#[kani::proof]
#[kani::unwind(4)]
fn c07_linear_every_finite_float() {
    let x = any_finite();
    let f = Function::create(&Activation::Linear);
    let t = Tensor::single(vec![x]);
    let (y, d) = (f.forward(&t), f.backward(&t));
    assert!(one(&y).to_bits() == x.to_bits(), "linear(x) == x");
    assert!(one(&d) == 1.0, "linear'(x) == 1");
    kani::cover!(true);
    std::mem::forget(t);
    std::mem::forget(y);
    std::mem::forget(d);
}
