//! C08 — announced shapes follow the standard formulas for every configuration in range; a flat size
//! is accepted by a spatial layer iff it is a perfect square.
use crate::stub_random_empty;
use neurons::activation::Activation;
use neurons::convolution::Convolution;
use neurons::deconvolution::Deconvolution;
use neurons::maxpool::Maxpool;
use neurons::network::{verif as hooks, Layer, Network};
use neurons::tensor::Shape;

fn triple(s: &Shape) -> (usize, usize, usize) {
    match s {
        Shape::Triple(a, b, c) => (*a, *b, *c),
        _ => (usize::MAX, usize::MAX, usize::MAX),
    }
}

#[kani::proof]
#[kani::stub(neurons::tensor::Tensor::random, stub_random_empty)]
#[kani::unwind(4)]
fn c08_conv_shape() {
    let (ic, ih, iw): (usize, usize, usize) = (kani::any(), kani::any(), kani::any());
    let (kh, kw, sh, sw, ph, pw, dh, dw): (usize, usize, usize, usize, usize, usize, usize, usize) =
        (kani::any(), kani::any(), kani::any(), kani::any(), kani::any(), kani::any(), kani::any(), kani::any());
    let f: usize = kani::any();
    kani::assume(ic >= 1 && ic <= 3 && f >= 1 && f <= 2);
    kani::assume(ih >= 1 && ih <= 64 && iw >= 1 && iw <= 64);
    kani::assume(kh >= 1 && kh <= 8 && kw >= 1 && kw <= 8);
    kani::assume(sh >= 1 && sh <= 4 && sw >= 1 && sw <= 4);
    kani::assume(ph <= 3 && pw <= 3 && dh >= 1 && dh <= 3 && dw >= 1 && dw <= 3);
    kani::assume((kh - 1) * dh + 1 <= ih + 2 * ph && (kw - 1) * dw + 1 <= iw + 2 * pw);
    let conv = Convolution::create(Shape::Triple(ic, ih, iw), f, &Activation::Linear, (kh, kw), (sh, sw), (ph, pw), (dh, dw), None);
    let layer = Layer::Convolution(conv);
    let (i, o) = hooks::shapes(&layer);
    let eh = (ih + 2 * ph - dh * (kh - 1) - 1) / sh + 1;
    let ew = (iw + 2 * pw - dw * (kw - 1) - 1) / sw + 1;
    assert!(triple(&o) == (f, eh, ew), "announced conv output shape == standard formula");
    assert!(triple(&i) == (ic, ih, iw), "input shape preserved");
    kani::cover!(sh > 1 && dh > 1 && ph > 0);
    std::mem::forget(layer);
}

#[kani::proof]
#[kani::stub(neurons::tensor::Tensor::random, stub_random_empty)]
#[kani::unwind(4)]
fn c08_deconv_shape() {
    let (ic, ih, iw): (usize, usize, usize) = (kani::any(), kani::any(), kani::any());
    let (kh, kw, sh, sw, ph, pw): (usize, usize, usize, usize, usize, usize) = (kani::any(), kani::any(), kani::any(), kani::any(), kani::any(), kani::any());
    let f: usize = kani::any();
    kani::assume(ic >= 1 && ic <= 3 && f >= 1 && f <= 2);
    kani::assume(ih >= 1 && ih <= 64 && iw >= 1 && iw <= 64);
    kani::assume(kh >= 1 && kh <= 8 && kw >= 1 && kw <= 8);
    kani::assume(sh >= 1 && sh <= 4 && sw >= 1 && sw <= 4 && ph <= 3 && pw <= 3);
    kani::assume((ih - 1) * sh + kh > 2 * ph && (iw - 1) * sw + kw > 2 * pw);
    let dc = Deconvolution::create(Shape::Triple(ic, ih, iw), f, &Activation::Linear, (kh, kw), (sh, sw), (ph, pw), None);
    let layer = Layer::Deconvolution(dc);
    let (i, o) = hooks::shapes(&layer);
    assert!(triple(&o) == (f, (ih - 1) * sh + kh - 2 * ph, (iw - 1) * sw + kw - 2 * pw), "announced deconv output shape == standard formula");
    assert!(triple(&i) == (ic, ih, iw), "input shape preserved");
    kani::cover!(sh > 1 && ph > 0);
    std::mem::forget(layer);
}

#[kani::proof]
#[kani::unwind(4)]
fn c08_pool_shape() {
    let (ic, ih, iw, kh, kw, sh, sw): (usize, usize, usize, usize, usize, usize, usize) =
        (kani::any(), kani::any(), kani::any(), kani::any(), kani::any(), kani::any(), kani::any());
    kani::assume(ic >= 1 && ic <= 4 && ih >= 1 && ih <= 64 && iw >= 1 && iw <= 64);
    kani::assume(kh >= 1 && kh <= ih && kw >= 1 && kw <= iw && kh <= 8 && kw <= 8);
    kani::assume(sh >= 1 && sh <= 4 && sw >= 1 && sw <= 4);
    let mp = Maxpool::create(Shape::Triple(ic, ih, iw), (kh, kw), (sh, sw));
    let layer = Layer::Maxpool(mp);
    let (i, o) = hooks::shapes(&layer);
    assert!(triple(&o) == (ic, (ih - kh) / sh + 1, (iw - kw) / sw + 1), "announced pool output shape == standard formula");
    assert!(triple(&i) == (ic, ih, iw), "input shape preserved");
    kani::cover!(sh > 1 && kh > 1);
    std::mem::forget(layer);
}

fn is_square(n: usize, bound: usize) -> bool {
    let mut r = 0usize;
    while r <= bound {
        if r * r == n {
            return true;
        }
        r += 1;
    }
    false
}

// --- a flat size is accepted  ==>  it is a perfect square, read as 1 x r x r.
// The library's own rejection `panic!` is the expected outcome for non-squares (filtered by the driver);
// the assertions below run only when `create` returned.

const FLAT_MAX: usize = 1 << 32;
const ROOT_MAX: usize = 4096;

#[kani::proof]
#[kani::stub(neurons::tensor::Tensor::random, stub_random_empty)]
#[kani::unwind(4)]
fn c08_flat_accept_conv() {
    let n: usize = kani::any();
    kani::assume(n >= 1 && n <= FLAT_MAX);
    let conv = Convolution::create(Shape::Single(n), 1, &Activation::Linear, (1, 1), (1, 1), (0, 0), (1, 1), None);
    let layer = Layer::Convolution(conv);
    let (i, _) = hooks::shapes(&layer);
    let (c, h, w) = triple(&i);
    assert!(c == 1 && h == w && h * w == n, "accepted flat size is r*r and is read as 1 x r x r");
    std::mem::forget(layer);
}

#[kani::proof]
#[kani::stub(neurons::tensor::Tensor::random, stub_random_empty)]
#[kani::unwind(4)]
fn c08_flat_accept_deconv() {
    let n: usize = kani::any();
    kani::assume(n >= 1 && n <= FLAT_MAX);
    let dc = Deconvolution::create(Shape::Single(n), 1, &Activation::Linear, (1, 1), (1, 1), (0, 0), None);
    let layer = Layer::Deconvolution(dc);
    let (i, _) = hooks::shapes(&layer);
    let (c, h, w) = triple(&i);
    assert!(c == 1 && h == w && h * w == n, "accepted flat size is r*r and is read as 1 x r x r");
    std::mem::forget(layer);
}

#[kani::proof]
#[kani::unwind(4)]
fn c08_flat_accept_pool() {
    let n: usize = kani::any();
    kani::assume(n >= 1 && n <= FLAT_MAX);
    let mp = Maxpool::create(Shape::Single(n), (1, 1), (1, 1));
    let layer = Layer::Maxpool(mp);
    let (i, _) = hooks::shapes(&layer);
    let (c, h, w) = triple(&i);
    assert!(c == 1 && h == w && h * w == n, "accepted flat size is r*r and is read as 1 x r x r");
    std::mem::forget(layer);
}

// --- every perfect square is accepted (no panic at all may be reachable here)

#[kani::proof]
#[kani::stub(neurons::tensor::Tensor::random, stub_random_empty)]
#[kani::unwind(4)]
fn c08_square_accepted_conv() {
    let r: usize = kani::any();
    kani::assume(r >= 1 && r <= ROOT_MAX);
    let conv = Convolution::create(Shape::Single(r * r), 1, &Activation::Linear, (1, 1), (1, 1), (0, 0), (1, 1), None);
    let layer = Layer::Convolution(conv);
    let (i, o) = hooks::shapes(&layer);
    assert!(triple(&i) == (1, r, r) && triple(&o) == (1, r, r), "r*r is read as 1 x r x r");
    kani::cover!(r == ROOT_MAX);
    std::mem::forget(layer);
}

#[kani::proof]
#[kani::stub(neurons::tensor::Tensor::random, stub_random_empty)]
#[kani::unwind(4)]
fn c08_square_accepted_deconv() {
    let r: usize = kani::any();
    kani::assume(r >= 1 && r <= ROOT_MAX);
    let dc = Deconvolution::create(Shape::Single(r * r), 1, &Activation::Linear, (1, 1), (1, 1), (0, 0), None);
    let layer = Layer::Deconvolution(dc);
    let (i, o) = hooks::shapes(&layer);
    assert!(triple(&i) == (1, r, r) && triple(&o) == (1, r, r), "r*r is read as 1 x r x r");
    std::mem::forget(layer);
}

#[kani::proof]
#[kani::unwind(4)]
fn c08_square_accepted_pool() {
    let r: usize = kani::any();
    kani::assume(r >= 1 && r <= ROOT_MAX);
    let mp = Maxpool::create(Shape::Single(r * r), (1, 1), (1, 1));
    let layer = Layer::Maxpool(mp);
    let (i, o) = hooks::shapes(&layer);
    assert!(triple(&i) == (1, r, r) && triple(&o) == (1, r, r), "r*r is read as 1 x r x r");
    std::mem::forget(layer);
}

// Builder chaining (`Network::dense/convolution/…` after each other) cannot be driven under Kani: `Network`
// owns `HashMap`s whose `RandomState` needs the `getrandom` syscall. The chaining clause is checked by engine B
// on enumerated configurations (cases/c08.rs).
