//! Engine A — Kani proof harnesses over the compiled `neurons` crate (C08 integer shape arithmetic, C18 generator).
#![allow(dead_code)]

#[cfg(kani)]
mod c07;
#[cfg(kani)]
mod c08;
#[cfg(kani)]
mod c18;

use neurons::tensor::{Shape, Tensor};

/// Stub for `Tensor::random`: allocates nothing (cuts `SystemTime::now` and symbolic-size allocations).
pub fn stub_random_empty(_shape: Shape, _min: f32, _max: f32) -> Tensor {
    Tensor::single(Vec::new())
}
