//! C18 — generator range, purity, shuffle, random tensors.
use neurons::random::Generator;
use neurons::tensor::{Data, Shape, Tensor};

const M: u64 = (1u64 << 31) - 1;

/// every reachable generator state, unit interval
#[kani::proof]
#[kani::stub(std::time::SystemTime::now, stub_now)] // the clock is an arbitrary instant
fn c18_generate_unit_all_states() {
    let state: u64 = kani::any();
    kani::assume(state < M);
    let mut g = Generator::create(state);
    let v = g.generate(0.0, 1.0);
    assert!(v >= 0.0 && v <= 1.0, "generate(0,1) in [0,1]");
    kani::cover!(true);
}

/// every 64-bit seed (first call): no overflow panic, value in range
#[kani::proof]
#[kani::stub(std::time::SystemTime::now, stub_now)] // the clock is an arbitrary instant
fn c18_generate_any_seed() {
    let seed: u64 = kani::any();
    let mut g = Generator::create(seed);
    let v = g.generate(0.0, 1.0);
    assert!(v >= 0.0 && v <= 1.0, "generate(0,1) in [0,1] for any seed");
    let w = g.generate(-1.0, 1.0);
    assert!(w >= -1.0 && w <= 1.0, "second value in [-1,1]");
    kani::cover!(seed > (1u64 << 62));
}

/// symbolic interval
#[kani::proof]
#[kani::stub(std::time::SystemTime::now, stub_now)] // the clock is an arbitrary instant
fn c18_generate_minmax() {
    let state: u64 = kani::any();
    kani::assume(state < M);
    let min: f32 = kani::any();
    let max: f32 = kani::any();
    kani::assume(min.is_finite() && max.is_finite() && min <= max);
    kani::assume(min.abs() <= 1.0e6 && max.abs() <= 1.0e6);
    let mut g = Generator::create(state);
    let v = g.generate(min, max);
    assert!(v >= min && v <= max, "generate(min,max) in [min,max]");
    kani::cover!(min < max);
}

/// symbolic interval over the whole finite range (the width `max - min` may overflow to infinity)
#[kani::proof]
#[kani::stub(std::time::SystemTime::now, stub_now)] // the clock is an arbitrary instant
fn c18_generate_minmax_wide() {
    let state: u64 = kani::any();
    kani::assume(state < M);
    let min: f32 = kani::any();
    let max: f32 = kani::any();
    kani::assume(min.is_finite() && max.is_finite() && min <= max);
    let mut g = Generator::create(state);
    let v = g.generate(min, max);
    assert!(v >= min && v <= max, "generate(min,max) in [min,max]");
    kani::cover!(max - min == f32::INFINITY);
}

/// the sequence is a pure function of the seed
#[kani::proof]
#[kani::stub(std::time::SystemTime::now, stub_now)] // the clock is an arbitrary instant: a seed-dependent read of it breaks purity
fn c18_purity() {
    let seed: u64 = kani::any();
    kani::assume(seed < M);
    let mut a = Generator::create(seed);
    let mut b = Generator::create(seed);
    let (a1, b1) = (a.generate(0.0, 1.0), b.generate(0.0, 1.0));
    assert!(a1.to_bits() == b1.to_bits(), "same seed, same first value");
    let (a2, b2) = (a.generate(0.0, 1.0), b.generate(0.0, 1.0));
    assert!(a2.to_bits() == b2.to_bits(), "same seed, same second value");
    kani::cover!(true);
}

fn check_perm(v: &Vec<usize>, n: usize) {
    assert!(v.len() == n, "length preserved");
    let mut seen = [false; 8];
    let mut i = 0;
    while i < n {
        assert!(v[i] < n, "element from the input");
        assert!(!seen[v[i]], "no duplicates");
        seen[v[i]] = true;
        i += 1;
    }
}

fn any_state() -> Generator {
    let state: u64 = kani::any();
    kani::assume(state < M);
    Generator::create(state)
}

#[kani::proof]
#[kani::stub(std::time::SystemTime::now, stub_now)] // the clock is an arbitrary instant
#[kani::unwind(7)]
fn c18_shuffle_len1() {
    let mut g = any_state();
    let mut v: Vec<usize> = vec![0];
    g.shuffle(&mut v);
    check_perm(&v, 1);
    kani::cover!(true);
    std::mem::forget(v);
}
#[kani::proof]
#[kani::stub(std::time::SystemTime::now, stub_now)] // the clock is an arbitrary instant
#[kani::unwind(8)]
fn c18_shuffle_len2() {
    let mut g = any_state();
    let mut v: Vec<usize> = vec![0, 1];
    g.shuffle(&mut v);
    check_perm(&v, 2);
    kani::cover!(v[0] == 1);
    std::mem::forget(v);
}
#[kani::proof]
#[kani::stub(std::time::SystemTime::now, stub_now)] // the clock is an arbitrary instant
#[kani::unwind(9)]
fn c18_shuffle_len3() {
    let mut g = any_state();
    let mut v: Vec<usize> = vec![0, 1, 2];
    g.shuffle(&mut v);
    check_perm(&v, 3);
    kani::cover!(v[0] == 2);
    std::mem::forget(v);
}
#[kani::proof]
#[kani::stub(std::time::SystemTime::now, stub_now)] // the clock is an arbitrary instant
#[kani::unwind(10)]
fn c18_shuffle_len4() {
    let mut g = any_state();
    let mut v: Vec<usize> = vec![0, 1, 2, 3];
    g.shuffle(&mut v);
    check_perm(&v, 4);
    kani::cover!(true);
    std::mem::forget(v);
}

/// the index computation of one shuffle step for every length up to 2^24 and every state:
/// `generate(0, len) as usize` clipped the way `shuffle` clips it is a valid index
#[kani::proof]
#[kani::stub(std::time::SystemTime::now, stub_now)] // the clock is an arbitrary instant
fn c18_shuffle_index_any_length() {
    let mut g = any_state();
    let len: usize = kani::any();
    kani::assume(len >= 1 && len <= (1usize << 24));
    let v = g.generate(0.0, len as f32);
    assert!(v >= 0.0 && v <= len as f32, "generate(0,len) in [0,len]");
    kani::cover!(v == len as f32);
}

/// The clock: every call returns one of eight instants, chosen independently per call (two seconds values x four
/// sub-second values incl. 0 and 999_999_999 ns). A fully symbolic instant makes `Duration::new` / `duration_since` a
/// 64-bit divide-and-carry the SAT back end does not finish once a harness reads the clock on a symbolic path.
pub fn stub_now() -> std::time::SystemTime {
    let i: u8 = kani::any();
    kani::assume(i < 8);
    let secs: [u64; 2] = [0, 1_700_000_000];
    let nanos: [u32; 4] = [0, 1, 123_456_789, 999_999_999];
    std::time::UNIX_EPOCH + std::time::Duration::new(secs[(i / 4) as usize], nanos[(i % 4) as usize])
}

#[kani::proof]
#[kani::stub(std::time::SystemTime::now, stub_now)]
#[kani::unwind(12)]
fn c18_tensor_random_single() {
    let t = Tensor::random(Shape::Single(2), -1.0, 1.0);
    let ok = match &t.data {
        Data::Single(v) => v.len() == 2 && v[0] >= -1.0 && v[0] <= 1.0 && v[1] >= -1.0 && v[1] <= 1.0,
        _ => false,
    };
    assert!(ok, "Single(2): length and range");
    assert!(t.shape == Shape::Single(2), "recorded shape");
    std::mem::forget(t);
    kani::cover!(true);
}

#[kani::proof]
#[kani::stub(std::time::SystemTime::now, stub_now)]
#[kani::unwind(12)]
fn c18_tensor_random_triple() {
    let t = Tensor::random(Shape::Triple(1, 1, 2), 0.0, 1.0);
    let ok = match &t.data {
        Data::Triple(v) => v.len() == 1 && v[0].len() == 1 && v[0][0].len() == 2 && v[0][0][0] >= 0.0 && v[0][0][0] <= 1.0 && v[0][0][1] >= 0.0 && v[0][0][1] <= 1.0,
        _ => false,
    };
    assert!(ok, "Triple(1,1,2): nesting and range");
    assert!(t.shape == Shape::Triple(1, 1, 2), "recorded shape");
    std::mem::forget(t);
    kani::cover!(true);
}

#[kani::proof]
#[kani::stub(std::time::SystemTime::now, stub_now)]
#[kani::unwind(12)]
fn c18_tensor_random_double() {
    let t = Tensor::random(Shape::Double(2, 1), 0.0, 1.0);
    let ok = match &t.data {
        Data::Double(v) => v.len() == 2 && v[0].len() == 1 && v[1].len() == 1 && v[0][0] >= 0.0 && v[0][0] <= 1.0 && v[1][0] >= 0.0 && v[1][0] <= 1.0,
        _ => false,
    };
    assert!(ok, "Double(2,1): nesting and range");
    std::mem::forget(t);
    kani::cover!(true);
}

/// purity for seeds that are multiples of the modulus (state 0, the generator's fixed point): 0, m, 2m, 1000m, 2^32 m, 8589934588 m
#[kani::proof]
#[kani::stub(std::time::SystemTime::now, stub_now)] // the clock is an arbitrary instant
fn c18_purity_multiples_of_modulus() {
    // (a symbolic factor k makes `k*m % m` a 64-bit multiply-and-divide the SAT back end does not finish: six multiples, symbolic choice)
    let table: [u64; 6] = [0, M, 2 * M, 1000 * M, 4294967296 * M, 8589934588 * M];
    let k: usize = kani::any();
    kani::assume(k < 6);
    let seed = table[k];
    let mut a = Generator::create(seed);
    let mut b = Generator::create(seed);
    let (a1, b1) = (a.generate(0.0, 1.0), b.generate(0.0, 1.0));
    assert!(a1.to_bits() == b1.to_bits(), "same seed (a multiple of the modulus), same first value");
    let (a2, b2) = (a.generate(-1.0, 1.0), b.generate(-1.0, 1.0));
    assert!(a2.to_bits() == b2.to_bits(), "same seed (a multiple of the modulus), same second value");
    kani::cover!(k > 1);
}

/// purity, one step, every state
#[kani::proof]
#[kani::stub(std::time::SystemTime::now, stub_now)] // the clock is an arbitrary instant: a seed-dependent read of it breaks purity
fn c18_purity_one_step() {
    let seed: u64 = kani::any();
    kani::assume(seed < M);
    let mut a = Generator::create(seed);
    let mut b = Generator::create(seed);
    let (a1, b1) = (a.generate(0.0, 1.0), b.generate(0.0, 1.0));
    assert!(a1.to_bits() == b1.to_bits(), "same seed, same first value");
    kani::cover!(true);
}

/// purity, two steps, seeds below 2^16
#[kani::proof]
#[kani::stub(std::time::SystemTime::now, stub_now)] // the clock is an arbitrary instant: a seed-dependent read of it breaks purity
fn c18_purity_two_steps_small_seeds() {
    let seed: u64 = kani::any();
    kani::assume(seed < (1 << 16));
    let mut a = Generator::create(seed);
    let mut b = Generator::create(seed);
    let (a1, b1) = (a.generate(0.0, 1.0), b.generate(0.0, 1.0));
    let (a2, b2) = (a.generate(0.0, 1.0), b.generate(0.0, 1.0));
    assert!(a1.to_bits() == b1.to_bits() && a2.to_bits() == b2.to_bits(), "same seed, same two values");
    kani::cover!(true);
}
